// Package fault decides C16 by fault enumeration: for every index k of the
// k-th write (sink side) or k-th visitor event (producer side) a failure is
// injected and the error must surface - promptly and unchanged.
package fault

import (
	"context"
	"encoding/hex"
	stdjson "encoding/json"
	"errors"
	"fmt"
	"io"
	"math"
	"os"
	"strconv"
	"syscall"

	structform "github.com/elastic/go-structform"
	"github.com/elastic/go-structform/gotype"
	sfjson "github.com/elastic/go-structform/json"

	"verif/engines/common"
	"verif/model"
	"verif/simkit"
)

type Scenario struct {
	Side            string   `json:"side"`              // sink | visitor
	Target          string   `json:"target"`            // encoder format or producer name
	Options         []string `json:"options,omitempty"` // json encoder options
	Stream          string   `json:"stream,omitempty"`  // event ops (sink side, adapters)
	Doc             string   `json:"doc_hex,omitempty"` // parser producers
	Entry           string   `json:"entry,omitempty"`
	Cuts            []int    `json:"cuts,omitempty"`
	Reads           []int    `json:"read_sizes,omitempty"`
	BufSize         int      `json:"bufsize,omitempty"`
	WriterKind      int      `json:"writer_kind,omitempty"` // simkit.Writer.AsWriter: 1 +io.ByteWriter, 2 +io.StringWriter, 3 both
	Type            string   `json:"go_type,omitempty"`     // fold producers
	Value           string   `json:"go_value,omitempty"`
	UserFolders     int      `json:"user_folders,omitempty"` // model.FolderOpts variant
	History         []string `json:"earlier_documents_on_this_parser,omitempty"`
	tolerateUnfired bool
	ReadFailsAt     int `json:"read_number_that_returns_data_and_error,omitempty"`
	K               int `json:"k"`
	Total           int `json:"total"`
}

type Engine struct{}

type injErr struct{ k int }

func (e *injErr) Error() string { return fmt.Sprintf("injected failure #%d", e.k) }

// newEncoder builds a real encoder over w.
// writerKind is the interface set through which the current run's encoders see
// their writer (set by the sink scenarios before any encoder is built).
var writerKind int

func newEncoder(f model.Format, w0 io.Writer, opts []string) structform.ExtVisitor {
	w := w0
	if sw, ok := w0.(*simkit.Writer); ok {
		w = sw.AsWriter(writerKind)
	}
	switch f {
	case model.JSON:
		v := sfjson.NewVisitor(w)
		for _, o := range opts {
			switch o {
			case "noEscapeHTML":
				v.SetEscapeHTML(false)
			case "ignoreInvalidFloat":
				v.SetIgnoreInvalidFloat(true)
			case "explicitRadixPoint":
				v.SetExplicitRadixPoint(true)
			}
		}
		return structform.EnsureExtVisitor(v)
	}
	return structform.EnsureExtVisitor(common.ByName(f).NewVisitor(w))
}

func drawJSONOpts(c *simkit.Choices) []string {
	var o []string
	if c.N(3) == 0 {
		o = append(o, "noEscapeHTML")
	}
	if c.N(3) == 0 {
		o = append(o, "ignoreInvalidFloat")
	}
	if c.N(3) == 0 {
		o = append(o, "explicitRadixPoint")
	}
	return o
}

func (Engine) Run(c *simkit.Choices, x *simkit.Ctx) *simkit.Violation {
	switch c.N(6) {
	case 5:
		return pipeSinkFaults(c, x)
	case 4:
		return foldSinkFaults(c, x)
	case 0:
		return sinkFaults(c, x)
	case 1:
		return parserFaults(c, x)
	case 2:
		return foldFaults(c, x)
	default:
		return adapterFaults(c, x)
	}
}

// sinkFaults: the io.Writer behind an encoder fails at write k and keeps failing.
func sinkFaults(c *simkit.Choices, x *simkit.Ctx) *simkit.Violation {
	st := x.Stats
	writerKind = 0
	if c.N(3) == 0 {
		writerKind = 1 + c.N(3) // the writer also offers io.ByteWriter / io.StringWriter
		st.Fault("writer-interface-variety")
	}
	defer func() { writerKind = 0 }()
	f := model.Formats[c.N(3)]
	var opts []string
	if f == model.JSON {
		opts = drawJSONOpts(c)
	}
	oo := model.OpsOpts{Extended: true, NonFinite: false, BigUint: true, Hints: true, MaxDepth: 3, Budget: 12, MaxStr: 40, DeepChains: true}
	if x.Thorough {
		oo.Budget, oo.MaxStr, oo.MaxDepth = 25, 200, 5
	}
	ops := model.GenOps(c, oo)
	// dry run: count the writes
	w := simkit.NewWriter()
	w.Clock = &x.Clock
	var dryErr error
	if pi := simkit.Guard(func() {
		enc := newEncoder(f, w, opts)
		for _, op := range ops {
			if dryErr = model.Apply(enc, op); dryErr != nil {
				return
			}
		}
	}); pi != nil || dryErr != nil {
		st.Probe("sink-dry-run-failed")
		return nil // the encoder refuses the stream without any fault: not C16's business
	}
	total := w.Writes
	ks := pickKs(c, total)
	failCount := c.N(3) // the failing write reports 0, len(p) or len(p)/2 bytes with its error
	for _, k := range ks {
		sc := &Scenario{Side: "sink", Target: string(f), Options: opts, Stream: model.OpsString(ops, 60), K: k, Total: total, BufSize: failCount, WriterKind: writerKind}
		simkit.SetCurrent(sc)
		st.Eval(1)
		st.Fault("write-fails-from-k")
		st.Distinct(simkit.NewDigest().Str(sc.Target).Str(sc.Stream).Int(k).Str(fmt.Sprint(opts)).Sum())
		fw := simkit.NewWriter()
		fw.FailFrom = k
		fw.Err = sinkErr(k, x)
		fw.Clock = &x.Clock
		fw.FailCount = failCount
		var got error
		failedAt := -1
		pi := simkit.Guard(func() {
			enc := newEncoder(f, fw, opts)
			for i, op := range ops {
				if got = model.Apply(enc, op); got != nil {
					failedAt = i
					return
				}
			}
		})
		if pi != nil {
			return &simkit.Violation{Kind: "panic", Site: "sink/" + string(f) + pi.Site, Detail: pi.Value + "\n" + pi.Stack, Scenario: sc}
		}
		if fw.Failed == 0 {
			return &simkit.Violation{Kind: "harness", Site: "sink/" + string(f), Detail: fmt.Sprintf("write %d of %d was never issued", k, total), Scenario: sc}
		}
		if got == nil {
			return &simkit.Violation{Kind: "error-lost", Site: "sink/" + string(f) + "/" + lastWriterOp(ops, k, f, opts),
				Detail:   fmt.Sprintf("the writer failed from write %d of %d (%d failed writes) but all %d events returned nil", k, total, fw.Failed, len(ops)),
				Scenario: sc}
		}
		_ = failedAt
	}
	st.Sample(map[string]interface{}{"side": "sink", "encoder": f, "options": opts, "stream": model.OpsString(ops, 12), "writes": total, "fault_indices": len(ks)})
	return nil
}

// foldSinkFaults: a Go value is folded straight into an encoder whose writer
// fails from write k: Fold (the whole call sequence) must report an error.
func foldSinkFaults(c *simkit.Choices, x *simkit.Ctx) *simkit.Violation {
	st := x.Stats
	writerKind = 0
	if c.N(3) == 0 {
		writerKind = 1 + c.N(3) // the writer also offers io.ByteWriter / io.StringWriter
		st.Fault("writer-interface-variety")
	}
	defer func() { writerKind = 0 }()
	f := model.Formats[c.N(3)]
	var opts []string
	if f == model.JSON {
		opts = drawJSONOpts(c)
	}
	te := model.PickType(c, false, false, false)
	val := te.Gen(c)
	useIter := c.Bool()
	run := func(w *simkit.Writer) error {
		enc := newEncoder(f, w, opts)
		if useIter {
			it, err := gotype.NewIterator(enc)
			if err != nil {
				return err
			}
			return it.Fold(val)
		}
		return gotype.Fold(val, enc)
	}
	w := simkit.NewWriter()
	var dryErr error
	if pi := simkit.Guard(func() { dryErr = run(w) }); pi != nil || dryErr != nil {
		st.Probe("fold-sink-dry-run-failed")
		return nil
	}
	total := w.Writes
	for _, k := range pickKs(c, total) {
		sc := &Scenario{Side: "sink", Target: "gotype.Fold->" + string(f), Options: opts, Type: te.Name, Value: model.Render(val), K: k, Total: total}
		simkit.SetCurrent(sc)
		st.Eval(1)
		st.Fault("write-fails-from-k")
		st.Distinct(simkit.NewDigest().Str(sc.Target).Str(sc.Value).Int(k).Str(fmt.Sprint(opts)).Sum())
		fw := simkit.NewWriter()
		fw.FailFrom, fw.Err, fw.Clock = k, sinkErr(k, x), &x.Clock
		fw.FailCount = k % 3
		var got error
		if pi := simkit.Guard(func() { got = run(fw) }); pi != nil {
			return &simkit.Violation{Kind: "panic", Site: "sink/fold/" + string(f) + pi.Site, Detail: pi.Value + "\n" + pi.Stack, Scenario: sc}
		}
		if fw.Failed > 0 && got == nil {
			return &simkit.Violation{Kind: "error-lost", Site: "sink/fold->" + string(f) + "/" + te.Name,
				Detail: fmt.Sprintf("the writer failed from write %d of %d (%d failed writes) but Fold returned nil", k, total, fw.Failed), Scenario: sc}
		}
	}
	st.Sample(map[string]interface{}{"side": "sink", "producer": "gotype.Fold", "encoder": f, "go_type": te.Name, "writes": total})
	return nil
}

// pipeSinkFaults: parser -> encoder -> writer failing from write k: the
// parsing call must report an error (both clauses of the property composed).
func pipeSinkFaults(c *simkit.Choices, x *simkit.Ctx) *simkit.Violation {
	st := x.Stats
	writerKind = 0
	if c.N(3) == 0 {
		writerKind = 1 + c.N(3) // the writer also offers io.ByteWriter / io.StringWriter
		st.Fault("writer-interface-variety")
	}
	defer func() { writerKind = 0 }()
	sf, df := model.Formats[c.N(3)], model.Formats[c.N(3)]
	src := common.ByName(sf)
	doc := common.GenDoc(c, sf, model.QuickOpts(), 1)
	data := doc.Bytes
	var reads []int
	for i, n := 0, 1+c.N(3); i < n; i++ {
		reads = append(reads, 1+c.N(9))
	}
	entry := c.N(3)
	run := func(w *simkit.Writer) error {
		enc := newEncoder(df, w, nil)
		switch entry {
		case 0:
			return src.Parse(simkit.Exact(data), enc)
		case 1:
			_, err := src.ParseReader(&simkit.Reader{Data: data, Sizes: reads, Clock: &x.Clock}, enc)
			return err
		default:
			return src.NewBytesDecoder(simkit.Exact(data), enc).Next()
		}
	}
	w := simkit.NewWriter()
	var dryErr error
	if pi := simkit.Guard(func() { dryErr = run(w) }); pi != nil || dryErr != nil {
		st.Probe("pipe-sink-dry-run-failed")
		return nil
	}
	total := w.Writes
	for _, k := range pickKs(c, total) {
		sc := &Scenario{Side: "sink", Target: string(sf) + "-parser->" + string(df) + "-encoder", Doc: hex.EncodeToString(data),
			Entry: []string{"parse", "reader", "decoder-bytes"}[entry], Reads: reads, K: k, Total: total}
		simkit.SetCurrent(sc)
		st.Eval(1)
		st.Fault("write-fails-from-k")
		st.Distinct(simkit.NewDigest().Str(sc.Target).Str(sc.Doc).Str(sc.Entry).Ints(reads).Int(k).Sum())
		fw := simkit.NewWriter()
		fw.FailFrom, fw.Err, fw.Clock = k, sinkErr(k, x), &x.Clock
		fw.FailCount = k % 3
		var got error
		if pi := simkit.Guard(func() { got = run(fw) }); pi != nil {
			return &simkit.Violation{Kind: "panic", Site: "sink/pipe/" + sc.Target + pi.Site, Detail: pi.Value + "\n" + pi.Stack, Scenario: sc}
		}
		if fw.Failed > 0 && got == nil {
			return &simkit.Violation{Kind: "error-lost", Site: "sink/pipe/" + sc.Target,
				Detail: fmt.Sprintf("the writer failed from write %d of %d (%d failed writes) but the parsing call returned nil", k, total, fw.Failed), Scenario: sc}
		}
	}
	return nil
}

// lastWriterOp names the op that issues write k (for the violation site).
func lastWriterOp(ops []model.Op, k int, f model.Format, opts []string) string {
	w := simkit.NewWriter()
	enc := newEncoder(f, w, opts)
	for _, op := range ops {
		model.Apply(enc, op)
		if w.Writes > k {
			if op.Ext != "" {
				return "On" + op.Ext
			}
			return op.Ev.K.String()
		}
	}
	return "?"
}

// pickKs enumerates every fault index when total<=64, else a seeded sample
// that always contains the first and the last index.
func pickKs(c *simkit.Choices, total int) []int {
	if total <= 64 {
		ks := make([]int, total)
		for i := range ks {
			ks[i] = i
		}
		return ks
	}
	set := map[int]bool{0: true, total - 1: true, total - 2: true}
	for i := 0; i < 61; i++ {
		set[c.N(total)] = true
	}
	ks := make([]int, 0, len(set))
	for k := 0; k < total; k++ {
		if set[k] {
			ks = append(ks, k)
		}
	}
	return ks
}

// checkProducer runs a producer against a tap that fails at event k.
func checkProducer(x *simkit.Ctx, sc *Scenario, site string, total int, ks []int,
	run func(t *simkit.Tap) error) *simkit.Violation {
	st := x.Stats
	for _, k := range ks {
		s := *sc
		s.K, s.Total = k, total
		simkit.SetCurrent(&s)
		st.Eval(1)
		st.Fault("visitor-fails-at-k")
		st.Distinct(simkit.NewDigest().Str(site).Str(s.Doc).Str(s.Stream).Str(s.Type).Str(s.Value).Str(s.Entry).Ints(s.Cuts).Ints(s.Reads).Int(s.BufSize).Int(k).Sum())
		// the injected error value varies: a unique value, and well-known
		// sentinels that a producer might be tempted to treat specially
		var inj error = &injErr{k}
		switch k % 5 {
		case 1:
			inj = io.EOF
		case 2:
			inj = io.ErrUnexpectedEOF
		case 3:
			inj = io.ErrShortWrite
		case 4:
			// errors a visitor may well return: typed errors of the standard
			// library, wrapped errors, and the library's OWN error values (a
			// visitor that is, or wraps, an Unfolder / a parser / an encoder)
			vals := foreignErrors()
			inj = vals[(k/5+int(x.Clock%7))%len(vals)]
		}
		after := 0
		fired := false
		t := simkit.NewTap(nil)
		t.Clock = &x.Clock
		t.NoRecord = true
		t.Hook = func(idx int, ev *simkit.Ev) error {
			if fired {
				after++
				return inj
			}
			if idx == k {
				fired = true
				return inj
			}
			return nil
		}
		var got error
		pi := simkit.Guard(func() { got = run(t) })
		if pi != nil {
			return &simkit.Violation{Kind: "panic", Site: site + pi.Site, Detail: pi.Value + "\n" + pi.Stack, Scenario: &s}
		}
		if !fired && sc.tolerateUnfired {
			// a parser left in the middle of a failed document may read the next
			// one differently: without the k-th event there is nothing to check
			st.Probe("event-k-not-reached-on-reused-parser")
			continue
		}
		if !fired {
			return &simkit.Violation{Kind: "harness", Site: site, Detail: fmt.Sprintf("event %d of %d was never delivered", k, total), Scenario: &s}
		}
		if got == nil {
			return &simkit.Violation{Kind: "error-lost", Site: site,
				Detail: fmt.Sprintf("the visitor failed at event %d of %d but the producer returned nil", k, total), Scenario: &s}
		}
		if got != inj {
			return &simkit.Violation{Kind: "error-changed", Site: site,
				Detail: fmt.Sprintf("the visitor returned %q at event %d of %d but the producer returned %q (%T)", inj, k, total, got, got), Scenario: &s}
		}
		if after > 0 {
			return &simkit.Violation{Kind: "event-after-error", Site: site,
				Detail: fmt.Sprintf("%d further events were delivered after the visitor failed at event %d of %d", after, k, total), Scenario: &s}
		}
	}
	return nil
}

var parserEntries = []string{"parse", "parsestring", "write", "reader", "decoder-bytes", "decoder-reader", "reused-parser"}

// swapVisitor lets one long-lived parser talk to a different visitor per document.
type swapVisitor struct{ structform.Visitor }

var errTransport = errors.New("transport failure delivered together with data")

var errEarlier = errors.New("error returned by the visitor of an EARLIER document")

// preDoc is a document a long-lived parser went through before the one under test.
type preDoc struct {
	data   []byte
	failAt int // >= 0: that document's visitor fails at this event with errEarlier
	str    bool
}

func parserFaults(c *simkit.Choices, x *simkit.Ctx) *simkit.Violation {
	st := x.Stats
	f := model.Formats[c.N(3)]
	cd := common.ByName(f)
	o := model.QuickOpts()
	if x.Thorough && c.N(3) == 0 {
		o.Budget, o.MaxStr = 30, 300
	}
	nvals := 1
	if c.N(4) == 0 {
		// a stream: the failing event may belong to a later document, after
		// the parser went through its end-of-value bookkeeping
		nvals = 2 + c.N(2)
		o.TopContainer = c.Bool()
	}
	doc := common.GenDoc(c, f, o, nvals)
	data := doc.Bytes
	broken := false
	if c.N(4) == 0 && len(data) > 1 {
		// an input the parser will refuse in the end (cut short, or corrupted):
		// every event it delivers before that still obeys the rule - also the
		// ones it delivers while working out that the input is incomplete
		broken = true
		if c.Bool() {
			data = data[:1+c.N(len(data)-1)]
		} else {
			data, _ = common.Corrupt(c, doc, 1, x.Stats)
		}
		if f == model.UBJSON && common.HasPayloadlessTyped(data) {
			// (a corrupted count on a payload-less typed container is the known
			// finding of C03, a time bomb - not an error-propagation question)
			data, broken = doc.Bytes, false
		}
	}
	sc := &Scenario{Side: "visitor", Target: string(f) + "-parser", Doc: hex.EncodeToString(data)}
	sc.Entry = parserEntries[c.N(len(parserEntries))]
	switch sc.Entry {
	case "write":
		n := 1 + c.Small(6)
		for i := 0; i < n && len(data) > 0; i++ {
			sc.Cuts = append(sc.Cuts, c.N(len(data)+1))
		}
		sortInts(sc.Cuts)
	case "reader", "decoder-reader":
		sc.BufSize = common.DrawBufSize(c)
		for i, n := 0, 1+c.N(3); i < n; i++ {
			sc.Reads = append(sc.Reads, 1+c.N(9))
		}
		if c.N(3) == 0 {
			// the transport fails too: one read returns its data TOGETHER with a
			// non-EOF error. An event made from those bytes may still reach the
			// visitor; if the visitor fails there, its error is the one to report
			sc.ReadFailsAt = 1 + c.N(6)
			sc.tolerateUnfired = true
		}
	}
	var pre []preDoc
	if sc.Entry == "reused-parser" {
		// ONE Parser instance used through Parse/ParseString for a few earlier
		// documents - complete ones, ones cut short, ones whose visitor failed
		// with another error value - and then for the document under test
		for i, n := 0, 1+c.N(3); i < n; i++ {
			d := common.GenDoc(c, f, o, 1).Bytes
			pd := preDoc{data: d, failAt: -1, str: c.Bool()}
			mode := c.N(3)
			if f == model.UBJSON {
				// (a ubjson parser left in the middle of a document reads the next
				// document's bytes as counts: with payload-less typed containers
				// that is the time bomb of the open C03 finding, not an
				// error-propagation question - complete documents only)
				mode = 2
			}
			switch mode {
			case 0:
				if len(d) > 1 {
					pd.data = d[:1+c.N(len(d)-1)]
				}
				sc.History = append(sc.History, "cut short: "+hex.EncodeToString(pd.data))
			case 1:
				pd.failAt = c.N(4)
				sc.History = append(sc.History, fmt.Sprintf("visitor fails at event %d: %s", pd.failAt, hex.EncodeToString(d)))
			default:
				sc.History = append(sc.History, "complete: "+hex.EncodeToString(d))
			}
			pre = append(pre, pd)
		}
		sc.tolerateUnfired = true
	}
	lastStr := c.Bool()
	readFailsAt := 0
	noRef := c.N(5) == 0
	run := func(t *simkit.Tap) error {
		var vs structform.Visitor = t
		if noRef {
			vs = simkit.NoRef{Visitor: t}
		}
		buf := simkit.Exact(data)
		switch sc.Entry {
		case "reused-parser":
			sw := &swapVisitor{}
			p := cd.NewParser(sw).(interface {
				Parse([]byte) error
				ParseString(string) error
			})
			for _, pd := range pre {
				pt := simkit.NewTap(nil)
				pt.NoRecord = true
				if pd.failAt >= 0 {
					at := pd.failAt
					pt.Hook = func(idx int, _ *simkit.Ev) error {
						if idx >= at {
							return errEarlier
						}
						return nil
					}
				}
				sw.Visitor = pt
				if pd.str {
					p.ParseString(string(pd.data))
				} else {
					p.Parse(simkit.Exact(pd.data))
				}
			}
			sw.Visitor = t
			if lastStr {
				return p.ParseString(string(buf))
			}
			return p.Parse(buf)
		case "parse":
			return cd.Parse(buf, vs)
		case "parsestring":
			return cd.ParseString(string(buf), vs)
		case "write":
			_, err := simkit.Feed(cd.NewParser(vs), buf, sc.Cuts, true, &x.Clock)
			return err
		case "reader":
			_, err := cd.ParseReader(&simkit.Reader{Data: buf, Sizes: sc.Reads, Clock: &x.Clock, FailAt: readFailsAt, FailWithData: true, FailErr: errTransport}, vs)
			return err
		default:
			var dec common.Decoder
			if sc.Entry == "decoder-bytes" {
				dec = cd.NewBytesDecoder(buf, vs)
			} else {
				dec = cd.NewDecoder(&simkit.Reader{Data: buf, Sizes: sc.Reads, Clock: &x.Clock, FailAt: readFailsAt, FailWithData: true, FailErr: errTransport}, sc.BufSize, vs)
			}
			for i := 0; i < nvals; i++ {
				if err := dec.Next(); err != nil {
					return err // (also io.EOF: the stream holds nvals values, so it is the visitor's)
				}
			}
			return nil
		}
	}
	// dry run (healthy transport)
	simkit.SetCurrent(sc)
	x.Alive()
	dry := simkit.NewTap(nil)
	dry.NoRecord = true
	var dryErr error
	readFailsAt = 0
	if pi := simkit.Guard(func() { dryErr = run(dry) }); pi != nil || (dryErr != nil && !broken) {
		st.Probe("parser-dry-run-failed")
		return nil
	}
	if broken {
		if dry.Count == 0 {
			return nil
		}
		st.Fault("input-refused-after-some-events")
	}
	readFailsAt = sc.ReadFailsAt
	if readFailsAt > 0 {
		st.Fault("read-returns-data-and-error")
	}
	total := dry.Count
	if v := checkProducer(x, sc, "visitor/"+string(f)+"-parser/"+sc.Entry, total, pickKs(c, total), run); v != nil {
		return v
	}
	st.Sample(map[string]interface{}{"side": "visitor", "producer": string(f) + " parser via " + sc.Entry, "doc_hex": trunc(sc.Doc, 80), "events": total})
	return nil
}

func foldFaults(c *simkit.Choices, x *simkit.Ctx) *simkit.Violation {
	st := x.Stats
	te := model.PickType(c, false, false, false)
	val := te.Gen(c)
	useIter := c.Bool()
	sc := &Scenario{Side: "visitor", Target: "gotype.Fold", Type: te.Name, Value: model.Render(val)}
	if c.N(4) == 0 {
		sc.UserFolders = 1 + c.N(model.NumFolderVariants-1)
	}
	fopts := model.FolderOpts(sc.UserFolders)
	if useIter {
		sc.Target = "gotype.Iterator.Fold"
	}
	run := func(t *simkit.Tap) error {
		if useIter {
			it, err := gotype.NewIterator(t, fopts...)
			if err != nil {
				return err
			}
			return it.Fold(val)
		}
		return gotype.Fold(val, t, fopts...)
	}
	dry := simkit.NewTap(nil)
	dry.NoRecord = true
	var dryErr error
	if pi := simkit.Guard(func() { dryErr = run(dry) }); pi != nil || dryErr != nil {
		st.Probe("fold-dry-run-failed")
		return nil
	}
	total := dry.Count
	if v := checkProducer(x, sc, "visitor/fold/"+te.Name, total, pickKs(c, total), run); v != nil {
		return v
	}
	st.Sample(map[string]interface{}{"side": "visitor", "producer": sc.Target, "go_type": te.Name, "events": total})
	return nil
}

// adapterFaults drives the extended-event adapters (EnsureExtVisitor over a
// plain visitor) with a failing downstream visitor.
func adapterFaults(c *simkit.Choices, x *simkit.Ctx) *simkit.Violation {
	st := x.Stats
	oo := model.OpsOpts{Extended: true, NonFinite: true, BigUint: true, Hints: true, MaxDepth: 2, Budget: 6, MaxStr: 20}
	var op model.Op
	for try := 0; ; try++ {
		ops := model.GenOps(c, oo)
		found := false
		for _, o := range ops {
			if o.Ext != "" || o.ByRef {
				op, found = o, true
				break
			}
		}
		if found {
			break
		}
		if try >= 3 {
			op = model.Op{Ext: "Int8Array", Arg: []int8{1, 2, 3}}
			break
		}
	}
	hideRef := c.Bool()
	sc := &Scenario{Side: "visitor", Target: "EnsureExtVisitor adapter", Stream: op.String()}
	run := func(t *simkit.Tap) error {
		var plain structform.Visitor = t
		if hideRef || op.Ext != "" {
			plain = simkit.NoRef{Visitor: t}
		}
		return model.Apply(structform.EnsureExtVisitor(plain), op)
	}
	dry := simkit.NewTap(nil)
	dry.NoRecord = true
	var dryErr error
	if pi := simkit.Guard(func() { dryErr = run(dry) }); pi != nil || dryErr != nil {
		st.Probe("adapter-dry-run-failed")
		return nil
	}
	total := dry.Count
	name := op.Ext
	if name == "" {
		name = op.Ev.K.String() + "Ref"
	}
	if v := checkProducer(x, sc, "visitor/adapter/"+name, total, pickKs(c, total), run); v != nil {
		return v
	}
	st.Sample(map[string]interface{}{"side": "visitor", "producer": "EnsureExtVisitor adapter", "op": trunc(op.String(), 80), "events": total})
	return nil
}

func sortInts(a []int) {
	for i := 1; i < len(a); i++ {
		for j := i; j > 0 && a[j-1] > a[j]; j-- {
			a[j-1], a[j] = a[j], a[j-1]
		}
	}
}

func trunc(s string, n int) string {
	if len(s) > n {
		return s[:n] + "…"
	}
	return s
}

type valueErr struct{ code int }

func (e valueErr) Error() string { return fmt.Sprintf("value error %d", e.code) }

var foreignErrs []error

// foreignErrors returns error values of many dynamic types, among them values
// that the library itself produces (collected by provoking them once): the
// identity of whatever the visitor returns must survive.
func foreignErrors() []error {
	if foreignErrs != nil {
		return foreignErrs
	}
	out := []error{context.Canceled, context.DeadlineExceeded, os.ErrDeadlineExceeded, io.ErrClosedPipe, io.ErrNoProgress,
		syscall.EINTR, syscall.ENOSPC, valueErr{7}, &os.PathError{Op: "write", Path: "/dev/full", Err: syscall.ENOSPC},
		fmt.Errorf("wrapped: %w", io.EOF), errors.Join(io.EOF, io.ErrUnexpectedEOF)}
	if _, err := strconv.ParseFloat("1e999", 64); err != nil {
		out = append(out, err) // *strconv.NumError (range)
	}
	if _, err := strconv.Atoi("x"); err != nil {
		out = append(out, err) // *strconv.NumError (syntax)
	}
	var je *stdjson.SyntaxError
	if err := stdjson.Unmarshal([]byte("{"), new(interface{})); errors.As(err, &je) || err != nil {
		out = append(out, err)
	}
	// the library's own error values
	nop := simkit.NewTap(nil)
	nop.NoRecord = true
	for _, cd := range common.Codecs {
		for _, in := range [][]byte{{0xff, 0xfe}, []byte("["), []byte("{\"a\""), {0x7b}, {0x5b, 0x23}, {0xc0}} {
			if err := cd.Parse(in, nop); err != nil {
				out = append(out, err)
			}
		}
	}
	mismatch := func(to interface{}, evs ...simkit.Ev) {
		u, err := gotype.NewUnfolder(to)
		if err != nil {
			out = append(out, err)
			return
		}
		for _, e := range evs {
			if err := simkit.Emit(u, e, false); err != nil {
				out = append(out, err)
				return
			}
		}
	}
	mismatch(new(int), simkit.Ev{K: simkit.KStr, S: "x"})
	mismatch(new([]bool), simkit.Ev{K: simkit.KStr, S: "x"})
	mismatch(new([]int), simkit.Ev{K: simkit.KObjStart, I: -1})
	mismatch(new(int), simkit.Ev{K: simkit.KArrStart, I: -1})
	mismatch(new(model.Simple), simkit.Ev{K: simkit.KArrStart, I: -1})
	mismatch(new(map[string]int), simkit.Ev{K: simkit.KObjStart, I: -1}, simkit.Ev{K: simkit.KStr, S: "not a key"})
	mismatch(new(map[int]string))
	w := simkit.NewWriter()
	w.FailFrom = 0
	if err := common.JSON.NewVisitor(w).OnFloat64(math.NaN()); err != nil {
		out = append(out, err)
	}
	if err := gotype.Fold(make(chan int), nop); err != nil {
		out = append(out, err)
	}
	foreignErrs = out
	return out
}

// tempErr is a sink error that calls itself temporary (as EAGAIN, EINTR and
// network time-outs do): the sink KEEPS failing with it all the same.
type tempErr struct{ k int }

func (e *tempErr) Error() string   { return fmt.Sprintf("temporary sink failure #%d", e.k) }
func (e *tempErr) Temporary() bool { return true }
func (e *tempErr) Timeout() bool   { return e.k%2 == 0 }

// sinkErr picks the error value the failing writer returns from write k on.
func sinkErr(k int, x *simkit.Ctx) error {
	switch k % 6 {
	case 1:
		return io.ErrShortWrite
	case 2:
		return io.ErrClosedPipe
	case 3:
		return io.EOF
	case 4:
		return []error{syscall.EAGAIN, syscall.EINTR, &tempErr{k}, os.ErrDeadlineExceeded, syscall.EPIPE, syscall.ENOSPC}[(k/6+int(x.Clock%5))%6]
	case 5:
		vals := foreignErrors()
		return vals[(k/6+int(x.Clock%7))%len(vals)]
	}
	return &injErr{k}
}
