// Package model holds the trusted base of the simulator's oracles: a value
// model, independent writers and readers for JSON, CBOR and UBJSON (sharing no
// code with the library), and scenario generators.
package model

import (
	"fmt"
	"math"
	"strconv"
	"strings"
)

type VKind uint8

const (
	VNull VKind = iota
	VUndef
	VBool
	VInt      // integer: !Neg => U ; Neg => -1-U   (covers [-2^64, 2^64-1])
	VF32      // F holds the 32 bits
	VF64      // F holds the 64 bits
	VNum      // JSON number literal that is not a 64-bit integer (S holds the literal)
	VText     // S
	VBytes    // S holds raw bytes
	VChar     // U holds the byte
	VHighPrec // S holds the decimal text
	VArr
	VObj
)

type Val struct {
	K    VKind
	B    bool
	Neg  bool
	U    uint64
	F    uint64
	S    string
	A    []Val
	Keys []string // VObj: key of A[i]
}

func Int(i int64) Val {
	if i < 0 {
		return Val{K: VInt, Neg: true, U: uint64(-(i + 1))}
	}
	return Val{K: VInt, U: uint64(i)}
}
func Uint(u uint64) Val { return Val{K: VInt, U: u} }
func Text(s string) Val { return Val{K: VText, S: s} }
func Bool(b bool) Val   { return Val{K: VBool, B: b} }
func F64(f float64) Val { return Val{K: VF64, F: math.Float64bits(f)} }
func F32(f float32) Val { return Val{K: VF32, F: uint64(math.Float32bits(f))} }
func Arr(a ...Val) Val  { return Val{K: VArr, A: a} }

// FitsInt64 reports whether an integer value lies in the int64 range.
func (v Val) FitsInt64() bool {
	return v.K == VInt && v.U <= math.MaxInt64
}

// Int64 returns the value as int64 (valid only if FitsInt64).
func (v Val) Int64() int64 {
	if v.Neg {
		return -1 - int64(v.U)
	}
	return int64(v.U)
}

// IntString renders an integer value in decimal.
func (v Val) IntString() string {
	if !v.Neg {
		return strconv.FormatUint(v.U, 10)
	}
	if v.U < math.MaxUint64 {
		return "-" + strconv.FormatUint(v.U+1, 10)
	}
	return "-18446744073709551616"
}

func (v Val) String() string {
	var sb strings.Builder
	v.write(&sb)
	return sb.String()
}

func (v Val) write(sb *strings.Builder) {
	switch v.K {
	case VNull:
		sb.WriteString("null")
	case VUndef:
		sb.WriteString("undef")
	case VBool:
		fmt.Fprintf(sb, "%v", v.B)
	case VInt:
		sb.WriteString(v.IntString())
	case VF32:
		fmt.Fprintf(sb, "f32(%#x)", v.F)
	case VF64:
		fmt.Fprintf(sb, "f64(%#x)", v.F)
	case VNum:
		fmt.Fprintf(sb, "num(%s)", v.S)
	case VText:
		fmt.Fprintf(sb, "%q", v.S)
	case VBytes:
		fmt.Fprintf(sb, "h'%x'", v.S)
	case VChar:
		fmt.Fprintf(sb, "char(%d)", v.U)
	case VHighPrec:
		fmt.Fprintf(sb, "H(%s)", v.S)
	case VArr:
		sb.WriteByte('[')
		for i, e := range v.A {
			if i > 0 {
				sb.WriteByte(',')
			}
			e.write(sb)
		}
		sb.WriteByte(']')
	case VObj:
		sb.WriteByte('{')
		for i, e := range v.A {
			if i > 0 {
				sb.WriteByte(',')
			}
			fmt.Fprintf(sb, "%q:", v.Keys[i])
			e.write(sb)
		}
		sb.WriteByte('}')
	}
}

// Token describes a span of an encoded document, so that cuts and corruptions
// can be aimed.
type Token struct {
	S, E  int    // [S,E)
	Kind  string // e.g. "str", "key", "int", "float", "head", "lit", "ws", "punct", "len", "marker"
	Depth int
}

// Doc is an encoded document with its token map and top-level value spans.
type Doc struct {
	Format string
	Bytes  []byte
	Tokens []Token
	// Values are the spans of the top-level values (excluding separators and
	// top-level no-ops / whitespace).
	Values [][2]int
	Vals   []Val
	// OpenEnd marks top-level values whose end is not self-delimiting: a JSON
	// top-level number (a prefix of it can be a complete value).
	OpenEnd []bool
}

// DupMember returns v with one member of one object (drawn) repeated at the end
// of that object: the same key twice in one document is legal input in all
// three formats.
func DupMember(c interface{ N(int) int }, v Val) Val {
	var objs []*Val
	var walk func(x *Val)
	out := cloneVal(v)
	walk = func(x *Val) {
		if x.K == VObj && len(x.A) > 0 {
			objs = append(objs, x)
		}
		for i := range x.A {
			walk(&x.A[i])
		}
	}
	walk(&out)
	if len(objs) == 0 {
		return v
	}
	o := objs[c.N(len(objs))]
	i := c.N(len(o.A))
	o.A = append(o.A, cloneVal(o.A[i]))
	o.Keys = append(o.Keys, o.Keys[i])
	return out
}

func cloneVal(v Val) Val {
	out := v
	if v.A != nil {
		out.A = make([]Val, len(v.A))
		for i := range v.A {
			out.A[i] = cloneVal(v.A[i])
		}
	}
	if v.Keys != nil {
		out.Keys = append([]string{}, v.Keys...)
	}
	return out
}
