// Package common adapts the real library entry points (never stubbed) to a
// uniform shape for the engines.
package common

import (
	"io"

	structform "github.com/elastic/go-structform"
	"github.com/elastic/go-structform/cborl"
	"github.com/elastic/go-structform/json"
	"github.com/elastic/go-structform/ubjson"

	"verif/model"
	"verif/simkit"
)

type Decoder interface{ Next() error }

type Codec struct {
	Name            model.Format
	Parse           func(b []byte, v structform.Visitor) error
	ParseString     func(s string, v structform.Visitor) error
	ParseReader     func(r io.Reader, v structform.Visitor) (int64, error)
	NewParser       func(v structform.Visitor) io.Writer
	NewDecoder      func(r io.Reader, buf int, v structform.Visitor) Decoder
	NewBytesDecoder func(b []byte, v structform.Visitor) Decoder
	NewVisitor      func(w io.Writer) structform.Visitor
}

var JSON = &Codec{
	Name:            model.JSON,
	Parse:           json.Parse,
	ParseString:     json.ParseString,
	ParseReader:     json.ParseReader,
	NewParser:       func(v structform.Visitor) io.Writer { return json.NewParser(v) },
	NewDecoder:      func(r io.Reader, n int, v structform.Visitor) Decoder { return json.NewDecoder(r, n, v) },
	NewBytesDecoder: func(b []byte, v structform.Visitor) Decoder { return json.NewBytesDecoder(b, v) },
	NewVisitor:      func(w io.Writer) structform.Visitor { return json.NewVisitor(w) },
}

var UBJSON = &Codec{
	Name:            model.UBJSON,
	Parse:           ubjson.Parse,
	ParseString:     ubjson.ParseString,
	ParseReader:     ubjson.ParseReader,
	NewParser:       func(v structform.Visitor) io.Writer { return ubjson.NewParser(v) },
	NewDecoder:      func(r io.Reader, n int, v structform.Visitor) Decoder { return ubjson.NewDecoder(r, n, v) },
	NewBytesDecoder: func(b []byte, v structform.Visitor) Decoder { return ubjson.NewBytesDecoder(b, v) },
	NewVisitor:      func(w io.Writer) structform.Visitor { return ubjson.NewVisitor(w) },
}

var CBOR = &Codec{
	Name:            model.CBOR,
	Parse:           cborl.Parse,
	ParseString:     cborl.ParseString,
	ParseReader:     cborl.ParseReader,
	NewParser:       func(v structform.Visitor) io.Writer { return cborl.NewParser(v) },
	NewDecoder:      func(r io.Reader, n int, v structform.Visitor) Decoder { return cborl.NewDecoder(r, n, v) },
	NewBytesDecoder: func(b []byte, v structform.Visitor) Decoder { return cborl.NewBytesDecoder(b, v) },
	NewVisitor:      func(w io.Writer) structform.Visitor { return cborl.NewVisitor(w) },
}

var Codecs = []*Codec{JSON, UBJSON, CBOR}

func ByName(f model.Format) *Codec {
	for _, c := range Codecs {
		if c.Name == f {
			return c
		}
	}
	return nil
}

// GenDoc draws a stream of n valid top-level values of format f, written by
// the independent writers.
func GenDoc(c *simkit.Choices, f model.Format, o model.GenOpts, n int) *model.Doc {
	vals := make([]model.Val, n)
	for i := range vals {
		vals[i] = model.GenVal(c, f, o)
	}
	switch f {
	case model.JSON:
		return model.WriteJSONStream(c, vals, c.N(4) == 0)
	case model.CBOR:
		return model.WriteCBORStream(c, vals)
	default:
		return model.WriteUBJSONStream(c, vals, model.DrawUBStyle(c))
	}
}

// BufSizes are the decoder buffer sizes the simulator draws from: tiny ones,
// the parsers' inline buffer boundary (63/64/65), powers of two and their
// neighbours, and large ones.
var BufSizes = []int{1, 2, 3, 4, 7, 8, 9, 15, 16, 17, 31, 32, 33, 63, 64, 65, 127, 128, 129, 255, 256, 257, 1024, 4095, 4096, 4097}

// DrawBufSize draws a buffer size; a third of the time exactly the length of a
// token or of the document (a buffer exactly as large as what it must hold).
func DrawBufSize(c *simkit.Choices, exact ...int) int {
	if len(exact) > 0 && c.N(3) == 0 {
		if n := exact[c.N(len(exact))] + c.N(3) - 1; n >= 1 {
			return n
		}
	}
	return BufSizes[c.N(len(BufSizes))]
}
