package model

import (
	"fmt"
	"math"

	structform "github.com/elastic/go-structform"

	"verif/simkit"
)

// Op is one call on the visitor seam: a basic event or an extended
// (typed slice / typed map) event.
type Op struct {
	Ev    simkit.Ev
	Ext   string      // "" for basic events, else e.g. "BoolArray", "Bytes", "StringObject"
	Arg   interface{} // the typed slice or map of an extended event
	ByRef bool        // strings/keys: deliver through OnStringRef/OnKeyRef
}

func (o Op) String() string {
	if o.Ext != "" {
		return fmt.Sprintf("On%s(%v)", o.Ext, o.Arg)
	}
	if o.ByRef {
		return o.Ev.String() + "/ref"
	}
	return o.Ev.String()
}

func OpsString(ops []Op, max int) string {
	s := ""
	for i, o := range ops {
		if i > 0 {
			s += " "
		}
		if max > 0 && i >= max {
			return s + fmt.Sprintf("…(+%d)", len(ops)-i)
		}
		s += o.String()
	}
	return s
}

// Apply performs the op on an extended visitor.
func Apply(v structform.ExtVisitor, o Op) error {
	if o.Ext == "" {
		return simkit.Emit(v, o.Ev, o.ByRef)
	}
	switch a := o.Arg.(type) {
	case []bool:
		return v.OnBoolArray(a)
	case []string:
		return v.OnStringArray(a)
	case []int8:
		return v.OnInt8Array(a)
	case []int16:
		return v.OnInt16Array(a)
	case []int32:
		return v.OnInt32Array(a)
	case []int64:
		return v.OnInt64Array(a)
	case []int:
		return v.OnIntArray(a)
	case []uint8:
		if o.Ext == "Bytes" {
			return v.OnBytes(a)
		}
		return v.OnUint8Array(a)
	case []uint16:
		return v.OnUint16Array(a)
	case []uint32:
		return v.OnUint32Array(a)
	case []uint64:
		return v.OnUint64Array(a)
	case []uint:
		return v.OnUintArray(a)
	case []float32:
		return v.OnFloat32Array(a)
	case []float64:
		return v.OnFloat64Array(a)
	case map[string]bool:
		return v.OnBoolObject(a)
	case map[string]string:
		return v.OnStringObject(a)
	case map[string]int8:
		return v.OnInt8Object(a)
	case map[string]int16:
		return v.OnInt16Object(a)
	case map[string]int32:
		return v.OnInt32Object(a)
	case map[string]int64:
		return v.OnInt64Object(a)
	case map[string]int:
		return v.OnIntObject(a)
	case map[string]uint8:
		return v.OnUint8Object(a)
	case map[string]uint16:
		return v.OnUint16Object(a)
	case map[string]uint32:
		return v.OnUint32Object(a)
	case map[string]uint64:
		return v.OnUint64Object(a)
	case map[string]uint:
		return v.OnUintObject(a)
	case map[string]float32:
		return v.OnFloat32Object(a)
	case map[string]float64:
		return v.OnFloat64Object(a)
	}
	return fmt.Errorf("model: unknown extended op %s", o.Ext)
}

// ExpandOp returns the basic-event expansion of an op (what the documented
// adapters produce), for ops whose expansion is order-deterministic.
func ExpandOp(o Op) []simkit.Ev {
	if o.Ext == "" {
		return []simkit.Ev{o.Ev}
	}
	t := simkit.NewTap(nil)
	Apply(structform.EnsureExtVisitor(simkit.NoRef{Visitor: t}), o)
	return t.Events
}

// OpsOpts control the event-stream generator.
type OpsOpts struct {
	Extended     bool // allow extended events
	NonFinite    bool // allow NaN/Inf
	BigUint      bool // allow uint64 above MaxInt64
	Hints        bool // announce lengths / element types
	MaxDepth     int
	Budget       int
	MaxStr       int
	TopContainer bool
	// DeepChains occasionally nests the value 31-70 levels deep (beyond the
	// pre-allocated nesting stacks) and continues every level after its
	// child closed.
	DeepChains bool
}

type opsGen struct {
	c      *simkit.Choices
	o      OpsOpts
	budget int
	ops    []Op
}

// GenOps draws one well-formed event stream describing a single value.
func GenOps(c *simkit.Choices, o OpsOpts) []Op {
	g := &opsGen{c: c, o: o, budget: o.Budget}
	if o.DeepChains && c.N(6) == 0 {
		g.deepChain()
		return g.ops
	}
	if o.TopContainer {
		g.container(0)
	} else {
		g.value(0)
	}
	return g.ops
}

func (g *opsGen) emit(e simkit.Ev) { g.ops = append(g.ops, Op{Ev: e}) }

// deepChain nests a scalar d levels deep; container kinds per level are drawn
// (runs of arrays, runs of objects, or mixed) and each level gets one more
// element after its child closed, so that per-level flags matter on the way up.
func (g *opsGen) deepChain() {
	c := g.c
	d := []int{31, 32, 33, 34, 40, 48, 63, 64, 65, 66, 70, 129}[c.N(12)]
	mode := c.N(3) // 0 arrays, 1 objects, 2 mixed
	kinds := make([]bool, d)
	for i := range kinds {
		switch mode {
		case 0:
			kinds[i] = true
		case 1:
			kinds[i] = false
		default:
			kinds[i] = c.Bool()
		}
	}
	for i := 0; i < d; i++ {
		if kinds[i] {
			g.emit(simkit.Ev{K: simkit.KArrStart, I: -1})
			if c.N(4) == 0 {
				g.emit(simkit.Ev{K: simkit.KInt8, I: int64(i % 100)})
			}
		} else {
			g.emit(simkit.Ev{K: simkit.KObjStart, I: -1})
			if c.N(4) == 0 {
				g.emit(simkit.Ev{K: simkit.KKey, S: "p"})
				g.emit(simkit.Ev{K: simkit.KBool, I: 1})
			}
			g.emit(simkit.Ev{K: simkit.KKey, S: "c"})
		}
	}
	g.scalar()
	for i := d - 1; i >= 0; i-- {
		if kinds[i] {
			if c.N(3) == 0 {
				g.emit(simkit.Ev{K: simkit.KInt8, I: int64(i % 100)})
			}
			g.emit(simkit.Ev{K: simkit.KArrEnd})
		} else {
			if c.N(3) == 0 {
				g.emit(simkit.Ev{K: simkit.KKey, S: "j"})
				g.emit(simkit.Ev{K: simkit.KInt8, I: 2})
			}
			g.emit(simkit.Ev{K: simkit.KObjEnd})
		}
	}
}

func (g *opsGen) value(depth int) {
	c := g.c
	g.budget--
	if depth < g.o.MaxDepth && g.budget > 0 && (c.N(10) < 4 || depth == 0 && c.N(10) < 6) {
		g.container(depth)
		return
	}
	g.scalar()
}

// intEvent picks one of the event kinds that can hold v.
func intEvent(c *simkit.Choices, v int64) simkit.Ev {
	var cand []simkit.Ev
	if v >= math.MinInt8 && v <= math.MaxInt8 {
		cand = append(cand, simkit.Ev{K: simkit.KInt8, I: v})
	}
	if v >= math.MinInt16 && v <= math.MaxInt16 {
		cand = append(cand, simkit.Ev{K: simkit.KInt16, I: v})
	}
	if v >= math.MinInt32 && v <= math.MaxInt32 {
		cand = append(cand, simkit.Ev{K: simkit.KInt32, I: v})
	}
	cand = append(cand, simkit.Ev{K: simkit.KInt64, I: v}, simkit.Ev{K: simkit.KInt, I: v})
	if v >= 0 {
		if v <= math.MaxUint8 {
			cand = append(cand, simkit.Ev{K: simkit.KUint8, U: uint64(v)}, simkit.Ev{K: simkit.KByte, U: uint64(v)})
		}
		if v <= math.MaxUint16 {
			cand = append(cand, simkit.Ev{K: simkit.KUint16, U: uint64(v)})
		}
		if v <= math.MaxUint32 {
			cand = append(cand, simkit.Ev{K: simkit.KUint32, U: uint64(v)})
		}
		cand = append(cand, simkit.Ev{K: simkit.KUint64, U: uint64(v)}, simkit.Ev{K: simkit.KUint, U: uint64(v)})
	}
	return cand[c.N(len(cand))]
}

func (g *opsGen) scalar() {
	c := g.c
	switch c.N(10) {
	case 0:
		g.emit(simkit.Ev{K: simkit.KNil})
	case 1:
		g.emit(simkit.Ev{K: simkit.KBool, I: int64(c.N(2))})
	case 2, 3, 4:
		g.ops = append(g.ops, Op{Ev: simkit.Ev{K: simkit.KStr, S: GenText(c, g.o.MaxStr)}, ByRef: c.N(3) == 0})
	case 5, 6, 7:
		if g.o.BigUint && c.N(8) == 0 {
			u := GenUintBig(c).U
			k := simkit.KUint64
			if c.Bool() {
				k = simkit.KUint
			}
			g.emit(simkit.Ev{K: k, U: u})
			return
		}
		g.emit(intEvent(c, GenInt(c).Int64()))
	case 8:
		g.emit(simkit.Ev{K: simkit.KFloat32, U: GenF32(c, g.o.NonFinite).F})
	default:
		g.emit(simkit.Ev{K: simkit.KFloat64, U: GenF64(c, g.o.NonFinite).F})
	}
}

func (g *opsGen) key() {
	g.ops = append(g.ops, Op{Ev: simkit.Ev{K: simkit.KKey, S: GenKey(g.c, g.o.MaxStr)}, ByRef: g.c.N(3) == 0})
}

func (g *opsGen) container(depth int) {
	c := g.c
	if g.o.Extended && c.N(3) == 0 {
		g.extended()
		return
	}
	n := c.Small(5)
	announced := int64(-1)
	if g.o.Hints && c.Bool() {
		announced = int64(n)
	}
	if c.Bool() {
		// array; optionally homogeneous with a truthful element type hint
		if g.o.Hints && announced >= 0 && c.N(3) == 0 {
			g.typedBasicArray(n)
			return
		}
		start := len(g.ops)
		g.emit(simkit.Ev{K: simkit.KArrStart, I: announced})
		cnt := 0
		for i := 0; i < n && g.budget > 0; i++ {
			g.value(depth + 1)
			cnt++
		}
		if announced >= 0 {
			g.ops[start].Ev.I = int64(cnt)
		}
		g.emit(simkit.Ev{K: simkit.KArrEnd})
		return
	}
	if g.o.Hints && announced >= 0 && c.N(3) == 0 {
		g.typedBasic(n, true) // homogeneous object with a truthful element type hint
		return
	}
	start := len(g.ops)
	g.emit(simkit.Ev{K: simkit.KObjStart, I: announced})
	cnt := 0
	for i := 0; i < n && g.budget > 0; i++ {
		g.key()
		g.value(depth + 1)
		cnt++
	}
	if announced >= 0 {
		g.ops[start].Ev.I = int64(cnt)
	}
	g.emit(simkit.Ev{K: simkit.KObjEnd})
}

// typedBasicArray emits start(len, elemType) + homogeneous elements + end.
func (g *opsGen) typedBasicArray(n int) { g.typedBasic(n, false) }

// typedBasic emits a homogeneous array or object whose start event announces
// length and element type truthfully.
func (g *opsGen) typedBasic(n int, object bool) {
	c := g.c
	type spec struct {
		bt structform.BaseType
		ev func() simkit.Ev
	}
	specs := []spec{
		{structform.BoolType, func() simkit.Ev { return simkit.Ev{K: simkit.KBool, I: int64(c.N(2))} }},
		{structform.StringType, func() simkit.Ev { return simkit.Ev{K: simkit.KStr, S: GenText(c, 12)} }},
		{structform.Int8Type, func() simkit.Ev { return simkit.Ev{K: simkit.KInt8, I: int64(int8(c.N(256)))} }},
		{structform.Int16Type, func() simkit.Ev { return simkit.Ev{K: simkit.KInt16, I: int64(int16(c.N(65536)))} }},
		{structform.Int32Type, func() simkit.Ev { return simkit.Ev{K: simkit.KInt32, I: int64(int32(GenInt(c).Int64()))} }},
		{structform.Int64Type, func() simkit.Ev { return simkit.Ev{K: simkit.KInt64, I: GenInt(c).Int64()} }},
		{structform.IntType, func() simkit.Ev { return simkit.Ev{K: simkit.KInt, I: GenInt(c).Int64()} }},
		{structform.ByteType, func() simkit.Ev { return simkit.Ev{K: simkit.KByte, U: uint64(c.N(256))} }},
		{structform.Uint8Type, func() simkit.Ev { return simkit.Ev{K: simkit.KUint8, U: uint64(c.N(256))} }},
		{structform.Uint16Type, func() simkit.Ev { return simkit.Ev{K: simkit.KUint16, U: uint64(c.N(65536))} }},
		{structform.Uint32Type, func() simkit.Ev { return simkit.Ev{K: simkit.KUint32, U: uint64(uint32(GenInt(c).Int64()))} }},
		{structform.Uint64Type, func() simkit.Ev { return simkit.Ev{K: simkit.KUint64, U: uint64(GenInt(c).Int64()) >> 1} }},
		{structform.UintType, func() simkit.Ev { return simkit.Ev{K: simkit.KUint, U: uint64(GenInt(c).Int64()) >> 1} }},
		{structform.Float32Type, func() simkit.Ev { return simkit.Ev{K: simkit.KFloat32, U: GenF32(c, g.o.NonFinite).F} }},
		{structform.Float64Type, func() simkit.Ev { return simkit.Ev{K: simkit.KFloat64, U: GenF64(c, g.o.NonFinite).F} }},
	}
	s := specs[c.N(len(specs))]
	if object {
		g.emit(simkit.Ev{K: simkit.KObjStart, I: int64(n), T: uint8(s.bt)})
		for i := 0; i < n; i++ {
			g.key()
			g.emit(s.ev())
		}
		g.emit(simkit.Ev{K: simkit.KObjEnd})
		return
	}
	g.emit(simkit.Ev{K: simkit.KArrStart, I: int64(n), T: uint8(s.bt)})
	for i := 0; i < n; i++ {
		g.emit(s.ev())
	}
	g.emit(simkit.Ev{K: simkit.KArrEnd})
}

var extArrayKinds = []string{"BoolArray", "StringArray", "Int8Array", "Int16Array", "Int32Array", "Int64Array", "IntArray",
	"Bytes", "Uint8Array", "Uint16Array", "Uint32Array", "Uint64Array", "UintArray", "Float32Array", "Float64Array"}
var extObjectKinds = []string{"BoolObject", "StringObject", "Int8Object", "Int16Object", "Int32Object", "Int64Object", "IntObject",
	"Uint8Object", "Uint16Object", "Uint32Object", "Uint64Object", "UintObject", "Float32Object", "Float64Object"}

// extended emits one typed-slice or typed-map event. Maps have at most one
// entry (Go map iteration order has no seam).
func (g *opsGen) extended() {
	c := g.c
	if c.Bool() {
		kind := extArrayKinds[c.N(len(extArrayKinds))]
		n := c.Small(6)
		g.ops = append(g.ops, Op{Ext: kind, Arg: GenTypedSlice(c, kind, n, g.o)})
		return
	}
	kind := extObjectKinds[c.N(len(extObjectKinds))]
	n := c.N(2)
	g.ops = append(g.ops, Op{Ext: kind, Arg: GenTypedMap(c, kind, n, g.o)})
}

func genU(c *simkit.Choices, big bool) uint64 {
	if big && c.N(6) == 0 {
		return GenUintBig(c).U
	}
	v := GenInt(c).Int64()
	if v < 0 {
		v = -(v + 1)
	}
	return uint64(v)
}

// GenTypedSlice draws the argument of an extended array event.
func GenTypedSlice(c *simkit.Choices, kind string, n int, o OpsOpts) interface{} {
	switch kind {
	case "BoolArray":
		a := make([]bool, n)
		for i := range a {
			a[i] = c.Bool()
		}
		return a
	case "StringArray":
		a := make([]string, n)
		for i := range a {
			a[i] = GenText(c, 16)
		}
		return a
	case "Int8Array":
		a := make([]int8, n)
		for i := range a {
			a[i] = int8(c.N(256))
		}
		return a
	case "Int16Array":
		a := make([]int16, n)
		for i := range a {
			a[i] = int16(GenInt(c).Int64())
		}
		return a
	case "Int32Array":
		a := make([]int32, n)
		for i := range a {
			a[i] = int32(GenInt(c).Int64())
		}
		return a
	case "Int64Array":
		a := make([]int64, n)
		for i := range a {
			a[i] = GenInt(c).Int64()
		}
		return a
	case "IntArray":
		a := make([]int, n)
		for i := range a {
			a[i] = int(GenInt(c).Int64())
		}
		return a
	case "Bytes", "Uint8Array":
		a := make([]uint8, n)
		for i := range a {
			a[i] = uint8(c.N(256))
		}
		return a
	case "Uint16Array":
		a := make([]uint16, n)
		for i := range a {
			a[i] = uint16(genU(c, false))
		}
		return a
	case "Uint32Array":
		a := make([]uint32, n)
		for i := range a {
			a[i] = uint32(genU(c, false))
		}
		return a
	case "Uint64Array":
		a := make([]uint64, n)
		for i := range a {
			a[i] = genU(c, o.BigUint)
		}
		return a
	case "UintArray":
		a := make([]uint, n)
		for i := range a {
			a[i] = uint(genU(c, o.BigUint))
		}
		return a
	case "Float32Array":
		a := make([]float32, n)
		for i := range a {
			a[i] = math.Float32frombits(uint32(GenF32(c, o.NonFinite).F))
		}
		return a
	case "Float64Array":
		a := make([]float64, n)
		for i := range a {
			a[i] = math.Float64frombits(GenF64(c, o.NonFinite).F)
		}
		return a
	}
	panic("model: unknown typed slice kind " + kind)
}

// GenTypedMap draws the argument of an extended object event (n <= 1 entries).
func GenTypedMap(c *simkit.Choices, kind string, n int, o OpsOpts) interface{} {
	k := GenKey(c, 12)
	switch kind {
	case "BoolObject":
		m := map[string]bool{}
		if n > 0 {
			m[k] = c.Bool()
		}
		return m
	case "StringObject":
		m := map[string]string{}
		if n > 0 {
			m[k] = GenText(c, 16)
		}
		return m
	case "Int8Object":
		m := map[string]int8{}
		if n > 0 {
			m[k] = int8(c.N(256))
		}
		return m
	case "Int16Object":
		m := map[string]int16{}
		if n > 0 {
			m[k] = int16(GenInt(c).Int64())
		}
		return m
	case "Int32Object":
		m := map[string]int32{}
		if n > 0 {
			m[k] = int32(GenInt(c).Int64())
		}
		return m
	case "Int64Object":
		m := map[string]int64{}
		if n > 0 {
			m[k] = GenInt(c).Int64()
		}
		return m
	case "IntObject":
		m := map[string]int{}
		if n > 0 {
			m[k] = int(GenInt(c).Int64())
		}
		return m
	case "Uint8Object":
		m := map[string]uint8{}
		if n > 0 {
			m[k] = uint8(c.N(256))
		}
		return m
	case "Uint16Object":
		m := map[string]uint16{}
		if n > 0 {
			m[k] = uint16(genU(c, false))
		}
		return m
	case "Uint32Object":
		m := map[string]uint32{}
		if n > 0 {
			m[k] = uint32(genU(c, false))
		}
		return m
	case "Uint64Object":
		m := map[string]uint64{}
		if n > 0 {
			m[k] = genU(c, o.BigUint)
		}
		return m
	case "UintObject":
		m := map[string]uint{}
		if n > 0 {
			m[k] = uint(genU(c, o.BigUint))
		}
		return m
	case "Float32Object":
		m := map[string]float32{}
		if n > 0 {
			m[k] = math.Float32frombits(uint32(GenF32(c, o.NonFinite).F))
		}
		return m
	case "Float64Object":
		m := map[string]float64{}
		if n > 0 {
			m[k] = math.Float64frombits(GenF64(c, o.NonFinite).F)
		}
		return m
	}
	panic("model: unknown typed map kind " + kind)
}

// ---- well-formed mutations of a basic event stream ---------------------------

// subtreeEnd returns the index one past the value starting at evs[i].
func subtreeEnd(evs []simkit.Ev, i int) int {
	depth := 0
	for j := i; j < len(evs); j++ {
		switch evs[j].K {
		case simkit.KArrStart, simkit.KObjStart:
			depth++
		case simkit.KArrEnd, simkit.KObjEnd:
			depth--
		}
		if depth == 0 {
			return j + 1
		}
	}
	return len(evs)
}

// valueStarts lists the indices at which a value (not a key, not an end) begins.
func valueStarts(evs []simkit.Ev) []int {
	var out []int
	for i, e := range evs {
		switch e.K {
		case simkit.KKey, simkit.KArrEnd, simkit.KObjEnd:
		default:
			out = append(out, i)
		}
	}
	return out
}

// MutateStream replaces value subtrees of a well-formed stream by values of
// another shape (null, scalar, empty or small container, a copy of another
// subtree) and rotates the members of objects. The result is again a
// well-formed stream; announced lengths of touched containers become unknown.
func MutateStream(c *simkit.Choices, evs []simkit.Ev, n int) []simkit.Ev {
	out := append([]simkit.Ev{}, evs...)
	for k := 0; k < n; k++ {
		starts := valueStarts(out)
		if len(starts) == 0 {
			return out
		}
		i := starts[c.N(len(starts))]
		end := subtreeEnd(out, i)
		var repl []simkit.Ev
		switch c.N(11) {
		case 9, 10: // drop one member of the object starting here
			if out[i].K == simkit.KObjStart && end-i > 2 {
				var members [][]simkit.Ev
				for j := i + 1; j < end-1; {
					e := subtreeEnd(out, j+1)
					members = append(members, out[j:e])
					j = e
				}
				drop := c.N(len(members))
				repl = append(repl, out[i])
				for m := range members {
					if m != drop {
						repl = append(repl, members[m]...)
					}
				}
				repl = append(repl, out[end-1])
			} else {
				repl = append(repl, out[i:end]...)
			}
		case 0, 1:
			repl = []simkit.Ev{{K: simkit.KNil}}
		case 2:
			repl = []simkit.Ev{{K: simkit.KBool, I: int64(c.N(2))}}
		case 3:
			repl = []simkit.Ev{{K: simkit.KInt64, I: GenInt(c).Int64()}}
		case 4:
			repl = []simkit.Ev{{K: simkit.KStr, S: GenText(c, 12)}}
		case 5:
			repl = []simkit.Ev{{K: simkit.KArrStart, I: -1}, {K: simkit.KArrEnd}}
		case 6:
			repl = []simkit.Ev{{K: simkit.KObjStart, I: -1}, {K: simkit.KKey, S: GenKey(c, 6)}, {K: simkit.KNil}, {K: simkit.KObjEnd}}
		case 7: // a copy of another subtree of the same stream
			j := starts[c.N(len(starts))]
			repl = append(repl, out[j:subtreeEnd(out, j)]...)
		default: // rotate the members of the object starting here
			if out[i].K == simkit.KObjStart {
				var members [][]simkit.Ev
				for j := i + 1; j < end-1; {
					e := subtreeEnd(out, j+1)
					members = append(members, out[j:e])
					j = e
				}
				if len(members) > 1 {
					r := 1 + c.N(len(members)-1)
					repl = append(repl, out[i])
					for m := range members {
						repl = append(repl, members[(m+r)%len(members)]...)
					}
					repl = append(repl, out[end-1])
				}
			}
			if repl == nil {
				repl = []simkit.Ev{{K: simkit.KNil}}
			}
		}
		next := append([]simkit.Ev{}, out[:i]...)
		next = append(next, repl...)
		next = append(next, out[end:]...)
		out = next
	}
	// lengths announced by enclosing containers may no longer be truthful
	for i := range out {
		if out[i].K == simkit.KArrStart || out[i].K == simkit.KObjStart {
			out[i].I, out[i].T = -1, 0
		}
	}
	return out
}

// RetypeNumbers re-delivers about half of the integer events of a stream in
// another integer event kind that can hold the same value (Int8(5) as
// Uint16(5), Int64(5), Byte(5) ...): what a document looks like after it went
// through another format. The VALUE of the stream is unchanged, so every
// expectation about the result still holds. (Negative values are never
// delivered as OnInt(int): the pinned tree hands those to a user-defined
// UnfoldState as OnUint - a value defect outside the claimed properties.)
func RetypeNumbers(c *simkit.Choices, evs []simkit.Ev) []simkit.Ev {
	out := append([]simkit.Ev{}, evs...)
	for i, e := range out {
		var v int64
		switch e.K {
		case simkit.KInt8, simkit.KInt16, simkit.KInt32, simkit.KInt64, simkit.KInt:
			v = e.I
		case simkit.KByte, simkit.KUint8, simkit.KUint16, simkit.KUint32, simkit.KUint64, simkit.KUint:
			if e.U > math.MaxInt64 {
				continue
			}
			v = int64(e.U)
		default:
			continue
		}
		if c.Bool() {
			ne := intEvent(c, v)
			if ne.K == simkit.KInt && v < 0 {
				ne.K = simkit.KInt64
			}
			out[i] = ne
		}
	}
	return out
}
