package main

import (
	"verif/engines/abandon"
	"verif/engines/alias"
	"verif/engines/chunk"
	"verif/engines/conc"
	"verif/engines/fault"
	"verif/engines/hostile"
	"verif/engines/kcache"
	"verif/engines/pipe"
	"verif/engines/pull"
	"verif/engines/reuse"
	"verif/simkit"
)

// propCfg describes how one property is explored.
type propCfg struct {
	Engine        simkit.Engine
	EngineName    string
	Level         string // evidence level
	QuickRuns     int
	ThoroughRuns  int
	QuickCapS     int // wall-clock cap (only ever truncates the run set)
	ThoroughCapS  int
	Race          bool   // workers are built with -race (checkptr, race detector)
	RunsPerProc   int    // >0: a worker process executes at most this many runs (fresh-process semantics)
	GoMaxProcs    string // GOMAXPROCS of the workers ("" = 2)
	RacePhaseRuns int    // >0 (non-race checks): additionally execute runs [0,n) under the -race build (checkptr)
	Rule          string
	Components    map[string][]string
	Assumptions   []string
}

var registry = map[string]*propCfg{}

func init() {
	registry["C02"] = &propCfg{
		Engine: chunk.Engine{}, EngineName: "chunk", Level: "exploration",
		QuickRuns: 50000, ThoroughRuns: 600000, QuickCapS: 60, ThoroughCapS: 900,
		Rule: "one run = one document written by the independent JSON/CBOR/UBJSON writers (1 in 4 then corrupted), delivered under every single cut, all 1-byte chunks, all cut pairs if len<=24, seeded cut sets (incl. empty writes) and seeded read plans (eof with/after data); evaluations = parser executions; a case is non-trivial if a cut lands strictly inside a multi-byte token (or the document is corrupted) and distinct by (document, entry point, cut set / read plan); corruptions include whitespace-like bytes that only some classifiers accept and lenient syntax (BOMs, comments, CBOR tags / magic, UBJSON no-ops) placed at the start of the input or of a token; 1 run in 800 uses an extreme shape (2-3 MiB tokens also inside containers, 10^5 levels, 2.6*10^5 elements, 2^20+1 typed nulls) under a reduced schedule set with event streams compared by digest; reader plans include empty reads (0, nil)",
		Components: map[string][]string{
			"real": {"json.Parser", "ubjson.Parser", "cborl.Parser", "Parse/ParseString/Write/ParseReader entry points", "io.Copy"},
			"stub": {"io.Reader (simkit.Reader)", "downstream visitor (simkit.Tap recorder)"}},
		Assumptions: []string{"documents come from the harness's independent writers; the reference outcome is the same parser class fed the whole document in one call",
			"no (0,nil) reads with a non-empty buffer are injected"},
	}
	registry["C18"] = &propCfg{
		Engine: pull.Engine{}, EngineName: "pull", Level: "exploration",
		QuickRuns: 400000, ThoroughRuns: 10000000, QuickCapS: 60, ThoroughCapS: 900,
		Rule: "one run = one stream of k in [0,6] top-level values from the independent writers, read through 3-6 decoder/reader plans (NewBytesDecoder, or NewDecoder with buffer size from {1,2,3,7,16,64,4096}, seeded short-read sizes, EOF with or after the data, optional truncation inside a value); evaluations = decoder plans executed; distinct by (stream bytes, constructor, buffer size, read plan, eof mode); every plan is non-trivial (k+1 Next calls against a scheduled reader); reader plans include empty reads (0, nil), concrete reader types, and readers that receive the stream only after the decoder was constructed; 1 run in 1500 is a stream around one extreme shape",
		Components: map[string][]string{
			"real": {"json.Decoder", "ubjson.Decoder", "cborl.Decoder", "the three push parsers (per-value reference)"},
			"stub": {"io.Reader (simkit.Reader)", "downstream visitor (simkit.Tap recorder)"}},
		Assumptions: []string{"reference events per value are those of the push parser on that value alone", "no (0,nil) reads with a non-empty buffer are injected; buffer size >= 1"},
	}
	registry["C03"] = &propCfg{
		Engine: hostile.Engine{}, EngineName: "hostile", Level: "exploration",
		QuickRuns: 100000, ThoroughRuns: 4000000, QuickCapS: 60, ThoroughCapS: 900,
		Rule: "one run = one valid stream from the independent writers, then either 6-15 hostile inputs derived from it (1-4 seeded corruptions: bit flip, byte replace, interesting-byte replace/insert, delete, truncate, length inflation; splices; pure random bytes), each delivered through 2-3 of {Parse, ParseString, Write* under a seeded chunking, ParseReader and Decoder.Next loops under seeded short reads / buffer sizes / EOF modes}, or (1 run in 3) every strict prefix ending inside a value (96 sampled if more) through the five entry points that know the end; evaluations = guarded entry-point executions; distinct by (input bytes, entry, schedule); all are non-trivial (hostile or truncated input); further scenario kinds: truncation also inside complete RFC 8949 items outside the library's subset (tags, half floats, simple values, indefinite strings); memScaling (1 in 1500: exact allocation for one 4 MiB and one 8 MiB token in 4-100 KiB pieces must about double); stackBomb (1 in 1000: 2^20-2^21 nesting levels, closed at once or not at all, under a 64 MiB stack limit); empty reads (0, nil) and runs of them in reader plans; Next is called twice more after every decoder error; cborl/ubjson also through Write followed by Parse/ParseString on the same parser",
		Components: map[string][]string{
			"real": {"json/ubjson/cborl Parser", "json/ubjson/cborl Decoder", "io.Copy"},
			"stub": {"io.Reader (simkit.Reader)", "downstream visitor (counting sink)"}},
		Assumptions: []string{"allocation is measured as the delta of /gc/heap/allocs:bytes around the call with bound 1 MiB + 64*len(input): small-object counts are flushed per span, so only allocations out of proportion are visible",
			"termination backstop: in-process watchdog (40 s of CPU time without a heartbeat); events bounded by 8*len+16", "JSON top-level numbers are excluded from the truncation check (a prefix of a number is a number)"},
	}
	registry["C16"] = &propCfg{
		Engine: fault.Engine{}, EngineName: "fault", Level: "fault_enumeration",
		QuickRuns: 600000, ThoroughRuns: 8000000, QuickCapS: 60, ThoroughCapS: 900,
		Rule: "one run = one generated event stream / document / Go value and a dry run counting W writes (sink side: json with options, ubjson, cborl encoders incl. extended events) or W visitor events (producer side: three parsers via Parse/ParseString/Write*/ParseReader/Decoder.Next under seeded chunking, gotype.Fold and Iterator.Fold over the type catalogue, a quarter with user-defined folders (gotype.Folders) that forward errors, EnsureExtVisitor adapters); then the failure is injected at EVERY index k<W (61 sampled + first/last if W>64); evaluations = injected executions; each is non-trivial (the fault fired) and distinct by (scenario, k); parser producers also run on one long-lived Parser after earlier complete / cut-short / visitor-failed documents, over streams of 1-3 values, on inputs that are refused in the end (every event before the refusal), and behind a reader that returns data together with a non-EOF error",
		Components: map[string][]string{
			"real": {"json/ubjson/cborl Visitor (encoders)", "json/ubjson/cborl Parser and Decoder", "gotype.Fold / Iterator", "EnsureExtVisitor adapters (array.go, map.go, string.go)"},
			"stub": {"io.Writer (simkit.Writer, fails permanently from write k)", "downstream visitor (simkit.Tap returning a unique error at event k)", "io.Reader (simkit.Reader)"}},
		Assumptions: []string{"callers stop at the first error, as the io.Writer and Visitor contracts prescribe", "maps passed through extended events have at most one entry (iteration order has no seam)"},
	}
	registry["C08"] = &propCfg{
		Engine: pipe.Engine{}, EngineName: "pipe", Level: "exploration",
		QuickRuns: 300000, ThoroughRuns: 4000000, QuickCapS: 60, ThoroughCapS: 900,
		Rule: "one run = one source stream (a single value, or 2-4 concatenated container documents) of a drawn source format written by the independent writers, piped parser -> encoder of a drawn target format under 3-6 plans: ParseReader(simkit.Reader) with whole, 1-byte or seeded short reads and EOF with/after data (two thirds), else Parse, ParseString, Write under a cut schedule, a reader pull decoder (drawn buffer size and concrete reader type) or a bytes pull decoder looped to io.EOF; the sink writer is seen through drawn optional interfaces (io.ByteWriter/io.StringWriter) and a JSON target encoder gets drawn options (HTML escaping, explicit radix point, invalid floats as null); evaluations = pipeline executions; distinct by (pair, source bytes, entry, plan, eof mode, buffer, reader/writer kind, options); every execution is non-trivial (the transport schedules every read)",
		Components: map[string][]string{
			"real": {"json/ubjson/cborl Parser (ParseReader/io.Copy, Parse, ParseString, Write)", "json/ubjson/cborl Decoder (Next loop)", "json/ubjson/cborl Visitor (encoders, JSON options)"},
			"stub": {"io.Reader (simkit.Reader)", "io.Writer (simkit.Writer)", "pass-through contract tap between parser and encoder"}},
		Assumptions: []string{"trusted base: independent writers and reference readers (encoding/json token stream; hand-written CBOR and UBJSON readers), cross-checked on every run", "value relation of DESIGN Appendix C"},
	}
	registry["C17"] = &propCfg{
		Engine: reuse.Engine{}, EngineName: "reuse", Level: "exploration",
		QuickRuns: 600000, ThoroughRuns: 8000000, QuickCapS: 60, ThoroughCapS: 900,
		Rule: "one run = one long-lived instance of a drawn kind (json/ubjson/cborl encoder incl. extended events; push parser via Write under per-document chunk schedules; Parser.Parse/ParseString called repeatedly; byte and reader pull decoders; fold Iterator, a quarter of them created with user-defined folders (gotype.Folders); Unfolder with SetTarget per document, optional Reset and key cache) processing a seeded history of 1-6 complete documents and then a probe; evaluations = histories executed; distinct by (kind, history, schedules, probe); every history is non-trivial (>= 1 prior document); unfolder histories pass strings as views into ONE buffer that every document overwrites (a third), are streams of similar records of one type (a sixth), and contain target types that SetTarget must refuse every time; parser histories contain extreme shapes (1 in 500)",
		Components: map[string][]string{
			"real": {"json/ubjson/cborl Visitor", "json/ubjson/cborl Parser", "json/ubjson/cborl Decoder", "gotype.Iterator", "gotype.Unfolder"},
			"stub": {"io.Writer (simkit.Writer)", "io.Reader (simkit.Reader)", "downstream visitor (simkit.Tap)"}},
		Assumptions: []string{"oracle: the same probe on a newly created instance; stack depths through the verif-tag accessors", "a history document the instance refuses ends the scenario (it was not completely processed)"},
	}
	registry["C20"] = &propCfg{
		Engine: kcache.Engine{}, EngineName: "kcache", Level: "exploration",
		QuickRuns: 300000, ThoroughRuns: 6000000, QuickCapS: 60, ThoroughCapS: 900,
		Rule: "one run = one Unfolder with EnableKeyCache(n), n drawn from {0,1,2,3,5,64,1000} or exactly the number of distinct keys +-1, fed a history of 1-8 (thorough: 1-16) documents whose object keys come from a structured alphabet of 1-8 keys (common prefix/suffix at equal length, nested prefixes, one differing middle byte, multi-byte runes, single bytes 0x80-0xff, arbitrary bytes, NUL-padding/length-byte collisions, very long keys around 4096/8192/65536 bytes), written by the independent writers in a drawn format and parsed by the real parser under per-document chunk schedules with chunk buffers scribbled after every write, into a drawn map-bearing target type; all targets are inspected only after the whole history; evaluations = histories; distinct by (capacity, format, target, documents, schedules); every history is non-trivial (keys delivered by reference through the cache); key alphabets include pairs of equal-length keys that collide under twelve common 32-bit string hashes; 1 run in 150 is a wide population (255-300 or 65535-66000 distinct keys on a cache that holds about all of them, then early keys again), 1 in 600 a hot stream (130-30000 records with exactly n keys on a cache of about n, then unseen keys)",
		Components: map[string][]string{
			"real": {"gotype.Unfolder incl. symbolCache", "json/ubjson/cborl Parser"},
			"stub": {"caller-side chunk buffers (simkit.Feed, scribbled)"}},
		Assumptions: []string{"oracle: the same history on an unfolder without key cache", "eviction order itself is not asserted (not part of the property)"},
	}
	registry["C14"] = &propCfg{
		Engine: abandon.Engine{}, EngineName: "abandon", Level: "exploration", RacePhaseRuns: 24000,
		QuickRuns: 160000, ThoroughRuns: 6000000, QuickCapS: 60, ThoroughCapS: 900,
		Rule: "one run = one (well-formed stream, target type) pair - the stream is the fold of a catalogue value of the target's or another type, a generated stream (typed hints, deep chains), hand-made events for the self-nesting Tree type, 1 in 3 then mutated in the middle (subtree replaced, members rotated or dropped); the target any catalogue type incl. an unsupported one, 1 in 3 pre-populated, 1 in 4 with user-defined unfolders (three styles) - abandoned after k events for EVERY k (24 sampled + complete if >40 events), with announced lengths of still-open containers inflated to {2^16,2^20,2^31-1,2^31,2^40,2^62,2^63-1} in half of the cases; then Reset, SetTarget and a compatible probe document (1 in 3 of the same type); evaluations = (stream,target,k) triples; distinct by (target, delivered prefix, announcements, probe type); all are non-trivial (a crash point or a complete mismatching document); the first 40000 runs are repeated under the -race build; further scenario kinds: soak (1 in 60), deep (1 in 40: several documents 8-130 levels deep on one unfolder, completed or abandoned, with/without Reset), grown (1 in 300: allocation for an inflated announcement on an unfolder that received an honest array of 1100-300000 elements versus a new one), extreme streams (1 in 1500); bytes lent through OnKeyRef/OnStringRef must come back unchanged",
		Components: map[string][]string{
			"real": {"gotype.Unfolder (all generated and reflection based unfolder states, Reset, SetTarget)", "gotype.Fold (stream source)"},
			"stub": {"the producer (events replayed by the simulator, by value or by reference)"}},
		Assumptions: []string{"allocation bound 1 MiB + 4 KiB per delivered event, cheap counter confirmed by an exact stop-the-world measurement", "sentinel words before and after the target inside one allocation detect out-of-target writes", "worker address space limited to 24 GiB so that giant allocations are fatal and attributed"},
	}
	registry["C15"] = &propCfg{
		Engine: alias.Engine{}, EngineName: "alias", Level: "exploration", Race: true,
		QuickRuns: 24000, ThoroughRuns: 600000, QuickCapS: 50, ThoroughCapS: 900,
		Rule: "one run = 1-4 documents (values of a string-bearing catalogue type, written by the independent writers in a drawn format) pushed through ONE parser/decoder and ONE unfolder (SetTarget per document, optional key cache) in an environment hostile to aliasing: chunk buffers scribbled after every Write, whole inputs scribbled after Parse/ParseReader/Next, small reused reader buffers, runtime.GC() at seeded event boundaries (GODEBUG=clobberfree=1), -race build with checkptr; 1 run in 5 instead folds a catalogue value into an encoder (a third with user-defined folders, the fold_user.go function-pointer conversion) with and without GC between events; evaluations = scenarios; distinct by (format, entry, target, documents, schedules, GC points); all are non-trivial (every buffer the library saw is destroyed before the targets are read); a third of the runs unfold every document into the SAME never-cleared target, an eighth repeat a member (duplicate keys), one entry point re-fills ONE caller buffer for every document; user-defined unfolders include one that keeps the string it is handed; bytes lent to the library must come back unchanged",
		Components: map[string][]string{
			"real": {"json/ubjson/cborl Parser and Decoder", "gotype.Unfolder", "gotype.Fold", "json/ubjson/cborl Visitor", "internal/unsafe conversions under checkptr", "visitors.StringConvVisitor (stringConv scenario)"},
			"stub": {"caller buffers (simkit.Feed / scribbled slices)", "io.Reader (simkit.Reader)", "GC trigger (tap between producer and consumer)"}},
		Assumptions: []string{"oracles: deep copy taken right after unfolding vs. the target after all later activity; benign run (immutable input, whole buffer, fresh instances, no GC injection)", "checkptr and the race detector abort the worker on an invalid pointer conversion (attributed through the progress word)"},
	}
	registry["C19"] = &propCfg{
		Engine: conc.Engine{}, EngineName: "conc", Level: "exploration", Race: true, RunsPerProc: 8, GoMaxProcs: "1",
		QuickRuns: 8000, ThoroughRuns: 300000, QuickCapS: 50, ThoroughCapS: 900,
		Rule: "one run = 2-6 caller goroutines, each with a seeded program of 1-4 pipeline operations on instances of its own (nine kinds: fold->encoder->writer with per-task JSON encoder options, reader->parser->unfolder incl. documents with members unknown to the target, transcode, fold->unfold, iterator+unfolder reused across values, per-instance custom folder, per-instance custom unfolder inside the shared enclosing type Holder, parse-hostile = corrupted/truncated shared documents, events-encode = generated event streams incl. high-precision values) over shared read-only documents, Go values (always one Inner-bearing value, one map whose key needs HTML escaping, 1-2 values with inline interface/Folder fields) and Go types (incl. two distinct types with the same qualified name), executed under the serialized seeded task scheduler (7 policies) with a task switch possible at every Read, Write (before the buffer is consumed) and visitor event; GOMAXPROCS=1; a worker process executes at most 8 runs; for a quarter of the runs (half in thorough) every task is also executed alone in a fresh process of its own and compared; evaluations = runs; distinct by (interleaving digest, programs) and non-trivial if more task switches than tasks occurred; fold-encode tasks also draw from a FIXED pool of option-sensitive values, fold large shared typed slices (255-1025 elements), fold values of their OWN of types that go through scratch copies, and register (or not) a user folder for a kind that is unsupported otherwise; a sixteenth of the runs additionally execute their tasks free-running (real threads, fresh race-instrumented process, 3 attempts) against fresh-process run-alone references",
		Components: map[string][]string{
			"real": {"gotype.Fold/Iterator/Unfolder incl. reflection-based compilation and type registries", "json/ubjson/cborl Parser and Visitor", "Go race detector (-race) as oracle"},
			"stub": {"thread scheduler (simkit.Sched: one runnable goroutine at a time, hand-offs hidden from the race detector)", "io.Reader / io.Writer / visitor taps that yield to the scheduler"}},
		Assumptions: []string{"no preemption inside a library function between two seams; the race detector's vector clocks make data races visible independently of adjacency in the schedule", "oracles: exit 66 of the race-built worker; per-task results equal the run-alone results"},
	}
}
