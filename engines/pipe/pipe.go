// Package pipe decides C08: a parser connected directly to an encoder (all
// nine pairs) turns every valid source stream into a valid target stream with
// the same value, irrespective of the read schedule of the simulated
// transport. The oracle decodes the target with an independent reference
// reader and compares it with the generated source value under the relation
// of DESIGN App. C.
package pipe

import (
	"encoding/hex"
	"fmt"

	"verif/engines/common"
	"verif/model"
	"verif/simkit"
)

type Scenario struct {
	Src         string `json:"src"`
	Dst         string `json:"dst"`
	Source      string `json:"source_hex"`
	SourceText  string `json:"source_text,omitempty"`
	Values      int    `json:"values"`
	Reads       []int  `json:"read_sizes,omitempty"`
	EOFWithData bool   `json:"eof_with_data,omitempty"`
	Target      string `json:"target_hex,omitempty"`
}

type Engine struct{}

func refRead(f model.Format, b []byte) ([]model.Val, error) {
	switch f {
	case model.JSON:
		return model.ReadJSON(b)
	case model.CBOR:
		return model.ReadCBOR(b)
	}
	return model.ReadUBJSON(b)
}

func (Engine) Run(c *simkit.Choices, x *simkit.Ctx) *simkit.Violation {
	st := x.Stats
	sf := model.Formats[c.N(3)]
	df := model.Formats[c.N(3)]
	src, dst := common.ByName(sf), common.ByName(df)
	o := model.QuickOpts()
	if x.Thorough && c.N(3) == 0 {
		o = model.ThoroughOpts()
		o.Budget = 30
	}
	n := 1
	if c.N(3) == 0 {
		// a concatenated stream of container documents
		n = 2 + c.N(3)
		o.TopContainer = true
	}
	doc := common.GenDoc(c, sf, o, n)

	// sanity of the trusted base: the reference reader of the source format
	// must read the independent writer's output back as the generated values
	if back, err := refRead(sf, doc.Bytes); err != nil || len(back) != len(doc.Vals) {
		return &simkit.Violation{Kind: "harness", Site: "reference-reader/" + string(sf),
			Detail: fmt.Sprintf("reference reader cannot read the independent writer's output: %v (%d of %d values) doc=%x", err, len(back), len(doc.Vals), doc.Bytes)}
	}

	nonFinite := false
	for _, v := range doc.Vals {
		if model.HasNonFinite(v) {
			nonFinite = true
		}
	}

	plans := 3 + c.N(4)
	for p := 0; p < plans; p++ {
		sc := &Scenario{Src: string(sf), Dst: string(df), Source: hex.EncodeToString(doc.Bytes), Values: n}
		if sf == model.JSON {
			sc.SourceText = string(doc.Bytes)
		}
		if p > 0 { // plan 0: as much as fits per read
			for i, k := 0, 1+c.N(4); i < k; i++ {
				switch c.N(3) {
				case 0:
					sc.Reads = append(sc.Reads, 1)
				case 1:
					sc.Reads = append(sc.Reads, 1+c.N(8))
				default:
					sc.Reads = append(sc.Reads, 1+c.N(len(doc.Bytes)+1))
				}
			}
			st.Fault("short-read")
		}
		sc.EOFWithData = c.Bool()
		simkit.SetCurrent(sc)
	x.Alive()
		st.Eval(1)
		st.Distinct(simkit.NewDigest().Str(sc.Src + ">" + sc.Dst).Bytes(doc.Bytes).Ints(sc.Reads).Int(b2i(sc.EOFWithData)).Sum())

		w := simkit.NewWriter()
		w.Clock = &x.Clock
		rd := &simkit.Reader{Data: simkit.Exact(doc.Bytes), Sizes: sc.Reads, EOFWithData: sc.EOFWithData, Clock: &x.Clock}
		var err error
		pi := simkit.Guard(func() {
			enc := dst.NewVisitor(w)
			tap := simkit.NewTap(enc)
			tap.NoRecord = true
			tap.Clock = &x.Clock
			_, err = src.ParseReader(rd, tap)
		})
		site := string(sf) + ">" + string(df)
		sc.Target = hex.EncodeToString(w.Buf)
		x.Observe(w.Buf)
		if pi != nil {
			return &simkit.Violation{Kind: "panic", Site: site + pi.Site, Detail: pi.Value + "\n" + pi.Stack, Scenario: sc}
		}
		if err != nil {
			if df == model.JSON && nonFinite {
				st.Probe("non-finite-float-refused-by-json")
				continue
			}
			return &simkit.Violation{Kind: "pipeline-error", Site: site,
				Detail: fmt.Sprintf("valid source stream refused: %v", err), Scenario: sc}
		}
		got, rerr := refRead(df, w.Buf)
		if rerr != nil {
			return &simkit.Violation{Kind: "target-invalid", Site: site,
				Detail: fmt.Sprintf("the reference %s reader rejects the target document: %v (read %d values)", df, rerr, len(got)), Scenario: sc}
		}
		if len(got) != len(doc.Vals) {
			return &simkit.Violation{Kind: "value-differs", Site: site,
				Detail: fmt.Sprintf("%d source values became %d target values", len(doc.Vals), len(got)), Scenario: sc}
		}
		for i := range got {
			if ok, why := model.Equiv(doc.Vals[i], got[i], sf, df); !ok {
				return &simkit.Violation{Kind: "value-differs", Site: site,
					Detail: fmt.Sprintf("value %d: %s", i, why), Scenario: sc}
			}
		}
	}
	st.Sample(map[string]interface{}{"pair": string(sf) + ">" + string(df), "values": n, "source_hex": trunc(hex.EncodeToString(doc.Bytes), 100), "read_plans": plans})
	return nil
}

func b2i(b bool) int {
	if b {
		return 1
	}
	return 0
}

func trunc(s string, n int) string {
	if len(s) > n {
		return s[:n] + "…"
	}
	return s
}
