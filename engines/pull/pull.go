// Package pull decides C18: a pull decoder delivers exactly one top-level
// value per Next and then io.EOF, whatever the reader does; a stream ending
// inside a value is an error distinct from a clean end.
package pull

import (
	"bytes"
	"encoding/hex"
	"fmt"
	"io"

	"verif/engines/common"
	"verif/model"
	"verif/simkit"
)

type Scenario struct {
	Format      string   `json:"format"`
	Values      []string `json:"values_hex"`
	Stream      string   `json:"stream_hex"`
	StreamText  string   `json:"stream_text,omitempty"`
	Ctor        string   `json:"ctor"`
	BufSize     int      `json:"bufsize,omitempty"`
	Reads       []int    `json:"read_sizes,omitempty"`
	EOFWithData bool     `json:"eof_with_data,omitempty"`
	TruncateAt  int      `json:"truncate_at"`
	NoRef       bool     `json:"visitor_without_stringref,omitempty"`
	ReaderKind  int      `json:"reader_kind,omitempty"` // simkit.AsReader
	LateFill    bool     `json:"stream_written_after_decoder_construction,omitempty"`
}

type Engine struct{}

var bufSizes = []int{1, 2, 3, 7, 16, 64, 4096}

// Predicates of open known findings this engine can steer around.
const (
	SkipUBCountedLast = "ubjson-counted-container-ends-stream"
)

func (Engine) Run(c *simkit.Choices, x *simkit.Ctx) *simkit.Violation {
	st := x.Stats
	f := model.Formats[c.N(3)]
	cd := common.ByName(f)
	o := model.QuickOpts()
	if x.Thorough && c.N(4) == 0 {
		o = model.ThoroughOpts()
		o.Budget = 30
	}
	k := c.N(7)
	if c.N(3) == 0 {
		o.TopContainer = true
	}
	var doc *model.Doc
	if c.N(1500) == 0 {
		// far outside the value generators: nesting, lengths and counts beyond
		// any limit an implementation may have picked
		var kind string
		doc, kind = common.ExtremeDoc(c, f)
		k = len(doc.Values)
		st.Probe("extreme-shape-" + kind)
	} else {
		doc = common.GenDoc(c, f, o, k)
	}
	stream := doc.Bytes

	// per-value reference: the push parser on that value alone
	refs := make([][]simkit.Ev, k)
	noRef := make([]bool, k)
	for i, sp := range doc.Values {
		t := simkit.NewTap(nil)
		var err error
		pi := simkit.Guard(func() { err = cd.Parse(stream[sp[0]:sp[1]], t) })
		if pi != nil || err != nil {
			// the push parser refuses a value of the independent writer: that
			// is a conformance question, but the decoder still owes k
			// successful Next calls and io.EOF; only the event comparison of
			// this value is dropped
			st.Probe("push-parser-refuses-value-events-not-compared")
			noRef[i] = true
			continue
		}
		refs[i] = t.Events
	}

	nplans := 3 + c.N(4)
	for plan := 0; plan < nplans; plan++ {
		sc := &Scenario{Format: string(f), Stream: hex.EncodeToString(stream), TruncateAt: -1, NoRef: c.N(8) == 0}
		if f == model.JSON {
			sc.StreamText = string(stream)
		}
		for _, sp := range doc.Values {
			sc.Values = append(sc.Values, hex.EncodeToString(stream[sp[0]:sp[1]]))
		}
		data := stream
		truncIn := -1 // index of the value the stream ends in
		if k > 0 && c.N(3) == 0 {
			// producer crash: the stream ends inside value j
			j := c.N(k)
			sp := doc.Values[j]
			if !doc.OpenEnd[j] && sp[1]-sp[0] >= 2 {
				at := sp[0] + 1 + c.N(sp[1]-sp[0]-1)
				data = stream[:at]
				truncIn = j
				sc.TruncateAt = at
				st.Fault("truncate")
			}
		}
		if c.Bool() {
			sc.Ctor = "bytes"
		} else {
			sc.Ctor = "reader"
			// a buffer exactly as large as one of the values (+-1) a third of the time
			var lens []int
			for _, sp := range doc.Values {
				lens = append(lens, sp[1]-sp[0])
			}
			sc.BufSize = common.DrawBufSize(c, lens...)
			nr := 1 + c.N(4)
			for i := 0; i < nr; i++ {
				switch c.N(3) {
				case 0:
					sc.Reads = append(sc.Reads, 1)
				case 1:
					sc.Reads = append(sc.Reads, 1+c.N(8))
				default:
					sc.Reads = append(sc.Reads, 1+c.N(sc.BufSize))
				}
			}
			if c.N(6) == 0 {
				// an empty read (0, nil) now and then: "nothing happened", not EOF
				sc.Reads = append(sc.Reads, 0)
				if c.N(4) == 0 {
					sc.Reads[len(sc.Reads)-1] = -[]int{2, 99, 100, 101, 150}[c.N(5)]
				}
				if c.Bool() {
					sc.Reads[0], sc.Reads[len(sc.Reads)-1] = sc.Reads[len(sc.Reads)-1], sc.Reads[0]
				}
				st.Fault("empty-read")
			}
			sc.EOFWithData = c.Bool()
			if c.N(3) == 0 {
				sc.ReaderKind = 1 + c.N(simkit.NumReaderKinds-1)
			}
			if sc.ReaderKind <= 1 && c.N(3) == 0 {
				// the producer starts only after the consumer has built its
				// decoder: nothing may be read (and found empty) at construction
				sc.LateFill = true
				st.Fault("stream-arrives-after-decoder-construction")
			}
			st.Fault("short-read")
			if sc.EOFWithData {
				st.Fault("eof-with-data")
			} else {
				st.Fault("eof-after-data")
			}
		}
		x.Alive()
		st.Eval(1)
		st.Distinct(simkit.NewDigest().Bytes(data).Str(sc.Ctor).Int(sc.BufSize).Ints(sc.Reads).Int(b2i(sc.EOFWithData)).Int(sc.ReaderKind).Int(b2i(sc.LateFill)).Sum())
		if v := runPlan(cd, f, sc, data, refs, noRef, doc, truncIn, x); v != nil {
			return v
		}
	}
	st.Sample(map[string]interface{}{"format": f, "values": k, "stream_hex": trunc(hex.EncodeToString(stream), 120)})
	return nil
}

func runPlan(cd *common.Codec, f model.Format, sc *Scenario, data []byte, refs [][]simkit.Ev, noRef []bool, doc *model.Doc,
	truncIn int, x *simkit.Ctx) *simkit.Violation {
	st := x.Stats
	simkit.SetCurrent(sc)
	x.Alive()
	k := len(refs)
	t := simkit.NewTap(nil)
	t.Clock = &x.Clock
	var vis interface {
		OnNil() error
	} = t
	_ = vis
	var dec common.Decoder
	var rd *simkit.Reader
	buf := simkit.Exact(data) // the decoder may keep this slice
	mk := func() {
		if sc.Ctor == "bytes" {
			if sc.NoRef {
				dec = cd.NewBytesDecoder(buf, simkit.NoRef{Visitor: t})
			} else {
				dec = cd.NewBytesDecoder(buf, t)
			}
		} else {
			rd = &simkit.Reader{Data: buf, Sizes: sc.Reads, EOFWithData: sc.EOFWithData, Clock: &x.Clock}
			var src io.Reader
			var late *bytes.Buffer
			switch {
			case sc.LateFill && sc.ReaderKind == 1:
				late = &bytes.Buffer{} // the stream is written into it AFTER the decoder exists
				src = late
			case sc.LateFill && sc.ReaderKind == 0:
				rd.Data = nil
				src = rd
			default:
				src = simkit.AsReader(sc.ReaderKind, rd)
			}
			if sc.NoRef {
				dec = cd.NewDecoder(src, sc.BufSize, simkit.NoRef{Visitor: t})
			} else {
				dec = cd.NewDecoder(src, sc.BufSize, t)
			}
			if late != nil {
				late.Write(buf)
			} else if sc.LateFill && sc.ReaderKind == 0 {
				rd.Data = buf
			}
		}
	}
	if pi := simkit.Guard(mk); pi != nil {
		return &simkit.Violation{Kind: "panic", Site: string(f) + "/new-decoder" + pi.Site, Detail: pi.Value + "\n" + pi.Stack, Scenario: sc}
	}
	site := string(f) + "/" + sc.Ctor
	expectOK := k
	if truncIn >= 0 {
		expectOK = truncIn
	}
	for call := 0; call <= expectOK; call++ {
		t.Reset()
		readsBefore := 0
		if rd != nil {
			readsBefore = rd.Reads
		}
		var err error
		pi := simkit.Guard(func() { err = dec.Next() })
		if pi != nil {
			return &simkit.Violation{Kind: "panic", Site: site + pi.Site, Detail: fmt.Sprintf("Next call %d: %s\n%s", call+1, pi.Value, pi.Stack), Scenario: sc}
		}
		if rd != nil {
			if rd.Stuck {
				return &simkit.Violation{Kind: "no-progress", Site: site, Detail: fmt.Sprintf("Next call %d polled the reader 1000 times with an empty buffer", call+1), Scenario: sc}
			}
			vlen := len(data)
			if call < k {
				vlen = doc.Values[call][1] - doc.Values[call][0]
				if call > 0 {
					vlen = doc.Values[call][1] - doc.Values[call-1][1]
				} else {
					vlen = doc.Values[call][1]
				}
			}
			if used := rd.Reads - readsBefore; used > 2*vlen+64 {
				return &simkit.Violation{Kind: "no-progress", Site: site, Detail: fmt.Sprintf("Next call %d used %d reads for at most %d bytes", call+1, used, vlen), Scenario: sc}
			}
		}
		x.ObserveStr(simkit.EventsString(t.Events, 0))
		switch {
		case call < expectOK:
			if err != nil {
				return &simkit.Violation{Kind: "wrong-value-count", Site: site,
					Detail:   fmt.Sprintf("Next call %d of %d complete values returned %v (events so far: %s)", call+1, k, err, simkit.EventsString(t.Events, 8)),
					Scenario: sc}
			}
			if d := simkit.DiffEvents(refs[call], t.Events); d >= 0 && !noRef[call] {
				return &simkit.Violation{Kind: "events-differ", Site: site,
					Detail: fmt.Sprintf("Next call %d: events differ at %d from the push parser on that value alone: want %s | got %s", call+1, d,
						simkit.EventsString(refs[call], 10), simkit.EventsString(t.Events, 10)),
					Scenario: sc}
			}
		case truncIn >= 0:
			// the stream ends inside this value
			if err == nil || err == io.EOF {
				return &simkit.Violation{Kind: "truncation-accepted", Site: site,
					Detail:   fmt.Sprintf("stream ends inside value %d (offset %d) but Next call %d returned %v", truncIn+1, sc.TruncateAt, call+1, err),
					Scenario: sc}
			}
			st.Probe("truncation-reported")
		default:
			if err != io.EOF {
				return &simkit.Violation{Kind: "eof-discipline", Site: site,
					Detail:   fmt.Sprintf("after %d complete values Next returned %v instead of io.EOF (events in that call: %s)", k, err, simkit.EventsString(t.Events, 8)),
					Scenario: sc}
			}
			if len(t.Events) != 0 {
				return &simkit.Violation{Kind: "eof-discipline", Site: site,
					Detail:   fmt.Sprintf("the call that returned io.EOF also delivered events: %s", simkit.EventsString(t.Events, 8)),
					Scenario: sc}
			}
			st.Probe("clean-eof")
		}
	}
	return nil
}

func b2i(b bool) int {
	if b {
		return 1
	}
	return 0
}

func trunc(s string, n int) string {
	if len(s) > n {
		return s[:n] + "…"
	}
	return s
}
