// Package chunk decides C02: parser output is independent of how the input
// bytes are cut into writes / reads. The simulated environment owns the
// delivery schedule; the oracle is the same parser class under the trivial
// schedule (one chunk).
package chunk

import (
	"encoding/hex"
	"fmt"
	"sort"

	"verif/engines/common"
	"verif/model"
	"verif/simkit"
)

type Scenario struct {
	Format      string         `json:"format"`
	Doc         string         `json:"doc_hex"`
	DocText     string         `json:"doc_text,omitempty"`
	Corruptions []common.Fault `json:"corruptions,omitempty"`
	Entry       string         `json:"entry"`
	Cuts        []int          `json:"cuts,omitempty"`
	Reads       []int          `json:"read_sizes,omitempty"`
	EOFWithData bool           `json:"eof_with_data,omitempty"`
	NoRef       bool           `json:"visitor_without_stringref,omitempty"`
	ReaderKind  int            `json:"reader_kind,omitempty"` // simkit.AsReader
}

type outcome struct {
	events []simkit.Ev
	err    error
	panic  *simkit.PanicInfo
	// digest mode (huge event streams): number of events and their digest
	hashed bool
	count  int
	sum    uint64
}

func (o *outcome) rejected() bool { return o.err != nil || o.panic != nil }

func (o *outcome) verdict() string {
	switch {
	case o.panic != nil:
		return "panic(" + o.panic.Value + ")"
	case o.err != nil:
		return "error(" + o.err.Error() + ")"
	}
	return "accepted"
}

type runner struct {
	cd     *common.Codec
	doc    []byte
	noRef  bool
	x      *simkit.Ctx
	docHex string
	digest bool // compare event streams by digest (extreme shapes)
}

func (r *runner) tap() *simkit.Tap {
	t := simkit.NewTap(nil)
	t.Clock = &r.x.Clock
	if r.digest {
		t.NoRecord, t.Hash = true, true
	}
	return t
}

func (r *runner) exec(entry string, cuts, reads []int, eofWithData bool, readerKind ...int) *outcome {
	rk := 0
	if len(readerKind) > 0 {
		rk = readerKind[0]
	}
	t := r.tap()
	o := &outcome{}
	simkit.SetCurrent(&Scenario{Format: string(r.cd.Name), Doc: r.hex(), Entry: entry, Cuts: cuts, Reads: reads, EOFWithData: eofWithData, NoRef: r.noRef})
	o.panic = simkit.Guard(func() {
		switch entry {
		case "parse":
			if r.noRef {
				o.err = r.cd.Parse(r.doc, simkit.NoRef{Visitor: t})
			} else {
				o.err = r.cd.Parse(r.doc, t)
			}
		case "parsestring":
			if r.noRef {
				o.err = r.cd.ParseString(string(r.doc), simkit.NoRef{Visitor: t})
			} else {
				o.err = r.cd.ParseString(string(r.doc), t)
			}
		case "write":
			var p interface {
				Write([]byte) (int, error)
			}
			if r.noRef {
				p = r.cd.NewParser(simkit.NoRef{Visitor: t})
			} else {
				p = r.cd.NewParser(t)
			}
			// reach measure: the parser's resume state at every chunk boundary
			// (verif-tag hook: stack depths, buffered bytes, current state)
			_, o.err = simkit.Feed(p, r.doc, cuts, true, &r.x.Clock, func(int) {
				if d, ok := p.(interface{ VerifDepths() []int }); ok {
					r.x.Stats.State(simkit.NewDigest().Str(string(r.cd.Name)).Ints(d.VerifDepths()).Sum())
				}
			})
		case "reader":
			rd := simkit.AsReader(rk, &simkit.Reader{Data: r.doc, Sizes: reads, EOFWithData: eofWithData, Clock: &r.x.Clock})
			if r.noRef {
				_, o.err = r.cd.ParseReader(rd, simkit.NoRef{Visitor: t})
			} else {
				_, o.err = r.cd.ParseReader(rd, t)
			}
		}
	})
	o.events = t.Events
	o.hashed, o.count, o.sum = t.Hash, t.Count, t.Sum
	return o
}

// hex returns the document in hex, computed once (the whole of it up to 64 KiB;
// beyond that the first bytes and the length: replay regenerates the document
// from the choice trace).
func (r *runner) hex() string {
	if r.docHex == "" {
		if len(r.doc) <= 64<<10 {
			r.docHex = hex.EncodeToString(r.doc)
		} else {
			r.docHex = fmt.Sprintf("%s...(%d bytes in all)", hex.EncodeToString(r.doc[:64]), len(r.doc))
		}
	}
	return r.docHex
}

// Engine is the C02 engine.
type Engine struct{}

func tokenAt(toks []model.Token, n int) []int {
	// index of the token strictly containing a cut at position p (S<p<E), else -1
	idx := make([]int, n+1)
	for i := range idx {
		idx[i] = -1
	}
	for ti, t := range toks {
		for p := t.S + 1; p < t.E && p <= n; p++ {
			idx[p] = ti
		}
	}
	return idx
}

func (Engine) Run(c *simkit.Choices, x *simkit.Ctx) *simkit.Violation {
	st := x.Stats
	f := model.Formats[c.N(3)]
	cd := common.ByName(f)
	o := model.QuickOpts()
	if x.Thorough && c.N(3) == 0 {
		o = model.ThoroughOpts()
	}
	nvals := 1
	if c.N(5) == 0 {
		nvals = 2 + c.N(2)
		o.TopContainer = c.Bool()
	}
	doc := common.GenDoc(c, f, o, nvals)
	extreme := false
	if c.N(800) == 0 {
		// MiB-sized tokens, 10^5 levels, 10^5 elements: growth policies and
		// size-dependent paths of the buffering code only exist out here
		var kind string
		doc, kind = common.ExtremeDoc(c, f)
		extreme = true
		st.Probe("extreme-shape-" + kind)
	}
	data := doc.Bytes
	var faults []common.Fault
	mutated := c.N(4) == 0
	if mutated {
		data, faults = common.Corrupt(c, doc, 1+c.N(3), st)
		if f == model.UBJSON && common.HasPayloadlessTyped(data) {
			// a corrupted count on a payload-less typed container is a time
			// bomb (known finding of C03), not a chunking question
			st.Probe("steered-around-ubjson-payloadless-typed")
			data, faults, mutated = doc.Bytes, nil, false
		}
	}
	r := &runner{cd: cd, doc: data, noRef: c.N(6) == 0, x: x, digest: extreme}
	sc := func(entry string, cuts, reads []int, ewd bool) *Scenario {
		s := &Scenario{Format: string(f), Doc: r.hex(), Corruptions: faults, Entry: entry,
			Cuts: cuts, Reads: reads, EOFWithData: ewd, NoRef: r.noRef}
		if f == model.JSON {
			s.DocText = string(data)
		}
		return s
	}
	tokIdx := tokenAt(doc.Tokens, len(doc.Bytes))
	docHash := simkit.NewDigest().Bytes(data).Sum()

	refParse := r.exec("parse", nil, nil, false)
	refWrite := r.exec("write", nil, nil, false)
	st.Eval(2)
	x.ObserveStr(simkit.EventsString(refParse.events, 0) + refParse.verdict())

	compare := func(ref, got *outcome, s *Scenario) *simkit.Violation {
		if ref.rejected() != got.rejected() {
			return &simkit.Violation{Kind: "verdict-differs", Site: string(f) + "/" + s.Entry,
				Detail:   fmt.Sprintf("one chunk: %s; this schedule: %s", ref.verdict(), got.verdict()),
				Scenario: s}
		}
		if mutated || ref.rejected() {
			return nil // invalid documents: verdict only
		}
		if ref.hashed {
			if ref.count != got.count || ref.sum != got.sum {
				return &simkit.Violation{Kind: "events-differ", Site: string(f) + "/" + s.Entry + "/digest",
					Detail: fmt.Sprintf("one chunk: %d events (digest %x); this schedule: %d events (digest %x)", ref.count, ref.sum, got.count, got.sum), Scenario: s}
			}
			return nil
		}
		if d := simkit.DiffEvents(ref.events, got.events); d >= 0 {
			kind := "end"
			if d < len(ref.events) {
				kind = ref.events[d].K.String()
			}
			lo := d - 2
			if lo < 0 {
				lo = 0
			}
			return &simkit.Violation{Kind: "events-differ", Site: string(f) + "/" + s.Entry + "/" + kind,
				Detail: fmt.Sprintf("first difference at event %d: one chunk …%s | this schedule …%s", d,
					simkit.EventsString(tail(ref.events, lo), 6), simkit.EventsString(tail(got.events, lo), 6)),
				Scenario: s}
		}
		return nil
	}

	note := func(entry string, cuts []int) {
		nontrivial := false
		for _, p := range cuts {
			if p > 0 && p < len(doc.Bytes) && !mutated {
				if ti := tokIdx[p]; ti >= 0 {
					nontrivial = true
					st.Probe("cut-in-" + doc.Tokens[ti].Kind)
				}
			} else if mutated {
				nontrivial = true
			}
		}
		if nontrivial {
			st.Distinct(simkit.NewDigest().Int(int(docHash)).Str(entry).Ints(cuts).Sum())
		}
	}

	// ParseString must equal Parse
	if v := compare(refParse, r.exec("parsestring", nil, nil, false), sc("parsestring", nil, nil, false)); v != nil {
		return v
	}
	st.Eval(1)

	tryWrite := func(cuts []int) *simkit.Violation {
		st.Eval(1)
		x.Alive()
		note("write", cuts)
		return compare(refWrite, r.exec("write", cuts, nil, false), sc("write", cuts, nil, false))
	}

	n := len(data)
	if n <= 1500 {
		// every single cut position
		for p := 1; p < n; p++ {
			if v := tryWrite([]int{p}); v != nil {
				return v
			}
		}
	} else {
		// long documents: 300 single cuts, half aimed at tokens (heads,
		// lengths, the first and last bytes of long strings), half uniform
		ncuts := 300
		if n > 20000 {
			ncuts = 60
		}
		if extreme {
			ncuts = 10
		}
		for i := 0; i < ncuts; i++ {
			p := 1 + c.N(n-1)
			if !mutated && len(doc.Tokens) > 0 && i%2 == 0 {
				t := doc.Tokens[c.N(len(doc.Tokens))]
				p = t.S + c.N(4)
				if c.Bool() {
					p = t.E - 2 + c.N(4)
				}
				if p < 1 {
					p = 1
				}
				if p >= n {
					p = n - 1
				}
			}
			if v := tryWrite([]int{p}); v != nil {
				return v
			}
		}
		st.Probe("long-document-sampled-cuts")
	}
	// all one-byte chunks
	if n > 1 && n <= 20000 && !extreme {
		all := make([]int, 0, n-1)
		for p := 1; p < n; p++ {
			all = append(all, p)
		}
		if v := tryWrite(all); v != nil {
			return v
		}
	}
	// all pairs for short documents
	if n <= 24 {
		for a := 1; a < n; a++ {
			for b := a + 1; b < n; b++ {
				if v := tryWrite([]int{a, b}); v != nil {
					return v
				}
			}
		}
	}
	// seeded random cut sets, incl. empty writes (duplicate positions)
	if extreme {
		// regular small pieces all the way through (every token is cut
		// somewhere): what depends on the NUMBER of continuation steps after a
		// huge token only shows this way
		for i := 0; i < 2; i++ {
			size := []int{7, 13, 64, 100, 1000, 4096}[c.N(6)]
			var cuts []int
			for p := size; p < n; p += size {
				cuts = append(cuts, p)
			}
			if v := tryWrite(cuts); v != nil {
				return v
			}
		}
	}
	k := 4 + c.N(6)
	if extreme {
		k = 2
	}
	for i := 0; i < k && n > 0; i++ {
		cuts := drawCuts(c, doc, n, !mutated)
		if v := tryWrite(cuts); v != nil {
			return v
		}
	}
	// reader-driven parses: arbitrary short reads, EOF with or after the data
	nplans := 4 + c.N(4)
	if extreme {
		nplans = 2
	}
	for i := 0; i < nplans; i++ {
		reads := drawReads(c, n)
		if extreme {
			for j := range reads {
				reads[j] += 500 // (no byte-by-byte delivery of MiB documents)
			}
		}
		ewd := c.Bool()
		if ewd {
			st.Fault("eof-with-data")
		} else {
			st.Fault("eof-after-data")
		}
		st.Fault("short-read")
		st.Eval(1)
		rk := 0
		if c.N(3) == 0 {
			rk = 1 + c.N(simkit.NumReaderKinds-1) // the same input behind another concrete reader type
			st.Fault("reader-type-variety")
		}
		st.Distinct(simkit.NewDigest().Int(int(docHash)).Str("reader").Ints(reads).Int(b2i(ewd)).Int(rk).Sum())
		s := sc("reader", nil, reads, ewd)
		s.ReaderKind = rk
		if v := compare(refParse, r.exec("reader", nil, reads, ewd, rk), s); v != nil {
			return v
		}
	}
	st.Sample(map[string]interface{}{"format": f, "doc_hex": trunc(hex.EncodeToString(data), 160), "mutated": mutated,
		"schedules": "all single cuts, all 1-byte chunks, pairs if len<=24, seeded cut sets, seeded read plans"})
	return nil
}

func b2i(b bool) int {
	if b {
		return 1
	}
	return 0
}

func trunc(s string, n int) string {
	if len(s) > n {
		return s[:n] + "…"
	}
	return s
}

func tail(e []simkit.Ev, lo int) []simkit.Ev {
	if lo > len(e) {
		lo = len(e)
	}
	return e[lo:]
}

// drawCuts draws a cut set; mode is swarm-varied: uniform, only inside
// multi-byte tokens, token boundary +-1, clustered, with empty writes.
func drawCuts(c *simkit.Choices, doc *model.Doc, n int, useTokens bool) []int {
	k := 1 + c.Small(12)
	mode := c.N(4)
	var cuts []int
	for i := 0; i < k; i++ {
		p := c.N(n + 1)
		if useTokens && len(doc.Tokens) > 0 && mode > 0 {
			t := doc.Tokens[c.N(len(doc.Tokens))]
			switch mode {
			case 1: // inside a token
				if t.E-t.S > 1 {
					p = t.S + 1 + c.N(t.E-t.S-1)
				}
			case 2: // boundary +-1
				p = t.E - 1 + c.N(3)
			case 3: // cluster around the token start
				p = t.S + c.N(4)
			}
		}
		if p < 0 {
			p = 0
		}
		if p > n {
			p = n
		}
		cuts = append(cuts, p)
		if c.N(8) == 0 {
			cuts = append(cuts, p) // empty write
		}
	}
	sort.Ints(cuts)
	return cuts
}

func drawReads(c *simkit.Choices, n int) []int {
	k := 1 + c.N(5)
	reads := make([]int, k)
	for i := range reads {
		switch c.N(4) {
		case 0:
			reads[i] = 1
		case 1:
			reads[i] = 1 + c.N(4)
		case 2:
			reads[i] = 1 + c.N(17)
		default:
			reads[i] = 1 + c.N(n+1)
		}
	}
	if c.N(6) == 0 {
		// empty reads (0, nil) in between: "nothing happened", not end of input
		reads = append(reads, 0)
		if c.N(4) == 0 {
			// a long run of them (a stalled source): 2 .. 150 in a row
			reads[len(reads)-1] = -[]int{2, 99, 100, 101, 150}[c.N(5)]
		}
		if c.Bool() {
			reads[0], reads[len(reads)-1] = reads[len(reads)-1], reads[0]
		}
	}
	return reads
}
