package simkit

import (
	"bufio"
	"bytes"
	"errors"
	"io"
	"strings"
)

// ErrStuck is returned by Reader after too many polls that cannot make
// progress (a zero-length destination buffer). It is how a busy-polling pull
// decoder is detected deterministically, without a wall clock.
var ErrStuck = errors.New("simkit: reader polled 1000 times with an empty buffer")

// ErrInjected is the default injected I/O error.
var ErrInjected = errors.New("simkit: injected I/O failure")

// Reader is the simulated transport on the io.Reader seam. Every Read is a
// scheduled event: the number of bytes returned comes from Sizes (cycled; an
// empty plan means "as much as fits"). It deliberately does not implement
// io.WriterTo so that io.Copy really issues read/write pairs.
type Reader struct {
	Data        []byte
	Sizes       []int // read plan; entry >= 1: at most that many bytes; 0: an empty read (0, nil); -N: N empty reads in a row
	EOFWithData bool  // deliver the final bytes together with io.EOF
	FailAt      int   // if >0: the FailAt-th read (1-based) returns FailErr instead of data
	FailErr     error
	// FailWithData: the FailAt-th read returns its data TOGETHER with FailErr
	// (legal for an io.Reader: "it may return the (non-nil) error from the same
	// call"); later reads return (0, FailErr).
	FailWithData bool
	Yield        func() // scheduler hook, called at every read
	Clock        *uint64

	Pos           int
	Reads         int
	EmptyPolls    int
	MaxRead       int // largest len(p) seen
	Stuck         bool
	eofSent       bool
	lastZero      bool
	zeroRun       int
	ZeroReads     int
	ReadsAfterEOF int
}

func (r *Reader) Read(p []byte) (int, error) {
	r.Reads++
	if r.Clock != nil {
		*r.Clock++
	}
	if r.Yield != nil {
		r.Yield()
	}
	if r.FailAt > 0 && r.Reads >= r.FailAt && !(r.FailWithData && r.Reads == r.FailAt && len(p) > 0 && r.Pos < len(r.Data)) {
		e := r.FailErr
		if e == nil {
			e = ErrInjected
		}
		return 0, e
	}
	if len(p) == 0 {
		r.EmptyPolls++
		if r.EmptyPolls >= 1000 {
			r.Stuck = true
			return 0, ErrStuck
		}
		return 0, nil
	}
	r.EmptyPolls = 0
	if len(p) > r.MaxRead {
		r.MaxRead = len(p)
	}
	rem := len(r.Data) - r.Pos
	if rem == 0 {
		if r.eofSent {
			r.ReadsAfterEOF++
		}
		r.eofSent = true
		return 0, io.EOF
	}
	n := len(p)
	if len(r.Sizes) > 0 {
		k := r.Sizes[(r.Reads-1)%len(r.Sizes)]
		if k <= 0 && !r.lastZero {
			// empty reads: (0, nil) is legal for an io.Reader ("nothing
			// happened", not EOF). Entry 0 is one of them, entry -N is N in a
			// row; then data again, so that progress is guaranteed whatever
			// the plan
			r.zeroRun++
			r.ZeroReads++
			r.Reads-- // the plan position does not advance during the run
			if r.zeroRun >= -k {
				r.zeroRun = 0
				r.lastZero = true
				r.Reads++
			}
			return 0, nil
		}
		if k >= 1 && k < n {
			n = k
		}
	}
	r.lastZero = false
	if n > rem {
		n = rem
	}
	copy(p, r.Data[r.Pos:r.Pos+n])
	r.Pos += n
	if r.FailWithData && r.FailAt > 0 && r.Reads == r.FailAt {
		e := r.FailErr
		if e == nil {
			e = ErrInjected
		}
		return n, e
	}
	if r.Pos == len(r.Data) && r.EOFWithData {
		r.eofSent = true
		return n, io.EOF
	}
	return n, nil
}

// Writer is the simulated sink on the io.Writer seam. It records every write
// and fails permanently from write number FailFrom (0-based; <0 = never).
type Writer struct {
	Buf      []byte
	Writes   int
	Sizes    []int // size of each recorded write
	FailFrom int
	Err      error
	// FailCount selects the byte count a failing write reports together with
	// its error (all legal for an io.Writer): 0 -> 0, 1 -> len(p), 2 -> len(p)/2.
	FailCount int
	Failed    int    // number of failed writes delivered
	Yield     func() // called before p is consumed (a blocked writer)
	Clock     *uint64
	KeepSizes bool
}

func NewWriter() *Writer { return &Writer{FailFrom: -1} }

func (w *Writer) Write(p []byte) (int, error) {
	idx := w.Writes
	w.Writes++
	if w.Clock != nil {
		*w.Clock++
	}
	if w.Yield != nil {
		w.Yield()
	}
	if w.FailFrom >= 0 && idx >= w.FailFrom {
		w.Failed++
		e := w.Err
		if e == nil {
			e = ErrInjected
		}
		switch w.FailCount {
		case 1:
			return len(p), e
		case 2:
			return len(p) / 2, e
		}
		return 0, e
	}
	w.Buf = append(w.Buf, p...)
	if w.KeepSizes {
		w.Sizes = append(w.Sizes, len(p))
	}
	return len(p), nil
}

func (w *Writer) Reset() {
	w.Buf = w.Buf[:0]
	w.Writes = 0
	w.Sizes = w.Sizes[:0]
	w.Failed = 0
}

// Feed delivers doc to w cut at the given ascending positions (duplicates
// produce empty writes). Each chunk is copied into a scratch buffer owned by
// the simulator; with scribble the scratch buffer is overwritten with 0xA5 as
// soon as Write returns, as a caller reusing its buffer would.
// It returns the index of the failing chunk (or -1) and the error.
func Feed(w io.Writer, doc []byte, cuts []int, scribble bool, clock *uint64, after ...func(chunk int)) (int, error) {
	var scratch []byte
	prev := 0
	write := func(i int, chunk []byte) error {
		if cap(scratch) < len(chunk) {
			scratch = make([]byte, len(chunk))
		}
		// capacity clamped to the length: a parser that slices or re-slices
		// beyond what it was given panics instead of reading stale bytes
		buf := scratch[:len(chunk):len(chunk)]
		copy(buf, chunk)
		if clock != nil {
			*clock++
		}
		_, err := w.Write(buf)
		if inputModified == "" && !bytes.Equal(buf, chunk) {
			checkUnmodified(buf, string(chunk), "Write")
		}
		for _, f := range after {
			f(i)
		}
		if scribble {
			for j := range buf {
				buf[j] = 0xA5
			}
		}
		return err
	}
	for i, c := range cuts {
		if c < prev {
			c = prev
		}
		if c > len(doc) {
			c = len(doc)
		}
		if err := write(i, doc[prev:c]); err != nil {
			return i, err
		}
		prev = c
	}
	if err := write(len(cuts), doc[prev:]); err != nil {
		return len(cuts), err
	}
	return -1, nil
}

// Exact returns a copy of b whose capacity equals its length, so that a
// library slicing beyond the bytes it was given panics instead of reading
// whatever the allocator left behind them.
func Exact(b []byte) []byte {
	out := make([]byte, len(b))
	copy(out, b)
	return out
}

// ---- interface variety: the same simulated endpoints seen through the
// optional interfaces a library might probe for ---------------------------------

// ByteStringWriter exposes a Writer additionally through io.ByteWriter and
// io.StringWriter. Every WriteByte / WriteString is an ordinary scheduled write
// (recorded, counted, failing from FailFrom on).
type ByteStringWriter struct{ *Writer }

func (w ByteStringWriter) WriteByte(c byte) error {
	_, err := w.Writer.Write([]byte{c})
	return err
}

func (w ByteStringWriter) WriteString(s string) (int, error) { return w.Writer.Write([]byte(s)) }

// ByteWriterOnly exposes io.Writer + io.ByteWriter.
type ByteWriterOnly struct{ *Writer }

func (w ByteWriterOnly) WriteByte(c byte) error {
	_, err := w.Writer.Write([]byte{c})
	return err
}

// StringWriterOnly exposes io.Writer + io.StringWriter.
type StringWriterOnly struct{ *Writer }

func (w StringWriterOnly) WriteString(s string) (int, error) { return w.Writer.Write([]byte(s)) }

// AsWriter returns the writer seen through interface set kind (0 plain).
func (w *Writer) AsWriter(kind int) io.Writer {
	switch kind % 4 {
	case 1:
		return ByteWriterOnly{w}
	case 2:
		return StringWriterOnly{w}
	case 3:
		return ByteStringWriter{w}
	}
	return w
}

// NumReaderKinds is the number of reader presentations of AsReader.
const NumReaderKinds = 6

// AsReader presents the same input through different concrete reader types:
// 0 the scheduled simulator reader; 1 *bytes.Buffer, 2 *bytes.Reader,
// 3 *strings.Reader (all three implement io.WriterTo, so io.Copy hands the
// whole input over in one write); 4 bufio.Reader over the scheduled reader;
// 5 the scheduled reader behind io.LimitedReader. The returned *Reader is nil
// for the standard-library types.
func AsReader(kind int, r *Reader) io.Reader {
	switch kind % NumReaderKinds {
	case 1:
		return bytes.NewBuffer(append([]byte{}, r.Data...))
	case 2:
		return bytes.NewReader(append([]byte{}, r.Data...))
	case 3:
		return strings.NewReader(string(r.Data))
	case 4:
		// (bufio itself gives up with io.ErrNoProgress after 100 consecutive
		// empty reads: runs in the plan are cut to 99 behind this wrapper)
		for i, k := range r.Sizes {
			if k < -99 {
				r.Sizes = append([]int{}, r.Sizes...)
				r.Sizes[i] = -99
			}
		}
		return bufio.NewReaderSize(r, 16)
	case 5:
		return &io.LimitedReader{R: r, N: int64(len(r.Data)) + 10}
	}
	return r
}
