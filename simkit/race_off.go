//go:build !race

package simkit

// RaceBuild reports whether the binary was built with -race.
const RaceBuild = false

func raceDisable() {}
func raceEnable()  {}
