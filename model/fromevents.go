package model

import (
	"errors"
	"math"
	"strconv"

	"verif/simkit"
)

// ValFromEvents rebuilds the value described by a well-formed basic event
// stream (announced lengths and element types are ignored).
func ValFromEvents(evs []simkit.Ev) (Val, error) {
	v, rest, err := valFrom(evs)
	if err != nil {
		return Val{}, err
	}
	if len(rest) != 0 {
		return Val{}, errors.New("model: trailing events")
	}
	return v, nil
}

func valFrom(evs []simkit.Ev) (Val, []simkit.Ev, error) {
	if len(evs) == 0 {
		return Val{}, nil, errors.New("model: event stream ended early")
	}
	e := evs[0]
	evs = evs[1:]
	switch e.K {
	case simkit.KNil:
		return Val{K: VNull}, evs, nil
	case simkit.KBool:
		return Bool(e.I != 0), evs, nil
	case simkit.KStr:
		return Text(e.S), evs, nil
	case simkit.KInt8, simkit.KInt16, simkit.KInt32, simkit.KInt64, simkit.KInt:
		return Int(e.I), evs, nil
	case simkit.KByte, simkit.KUint8, simkit.KUint16, simkit.KUint32, simkit.KUint64, simkit.KUint:
		return Uint(e.U), evs, nil
	case simkit.KFloat32:
		return Val{K: VF32, F: e.U}, evs, nil
	case simkit.KFloat64:
		return Val{K: VF64, F: e.U}, evs, nil
	case simkit.KArrStart:
		v := Val{K: VArr, A: []Val{}}
		for {
			if len(evs) == 0 {
				return Val{}, nil, errors.New("model: unterminated array")
			}
			if evs[0].K == simkit.KArrEnd {
				return v, evs[1:], nil
			}
			var el Val
			var err error
			el, evs, err = valFrom(evs)
			if err != nil {
				return Val{}, nil, err
			}
			v.A = append(v.A, el)
		}
	case simkit.KObjStart:
		v := Val{K: VObj, A: []Val{}}
		for {
			if len(evs) == 0 {
				return Val{}, nil, errors.New("model: unterminated object")
			}
			if evs[0].K == simkit.KObjEnd {
				return v, evs[1:], nil
			}
			if evs[0].K != simkit.KKey {
				return Val{}, nil, errors.New("model: key expected")
			}
			k := evs[0].S
			var el Val
			var err error
			el, evs, err = valFrom(evs[1:])
			if err != nil {
				return Val{}, nil, err
			}
			v.Keys = append(v.Keys, k)
			v.A = append(v.A, el)
		}
	}
	return Val{}, nil, errors.New("model: unexpected event " + e.String())
}

// ForFormat adapts a value to what format f can carry as a valid document:
// floats become shortest-round-trip literals for JSON; unsigned integers above
// MaxInt64 become high-precision numbers for UBJSON. ok is false if the value
// cannot be carried (non-finite float in JSON).
func ForFormat(v Val, f Format) (Val, bool) {
	switch v.K {
	case VF32, VF64:
		if f == JSON {
			var fl float64
			bits := 64
			if v.K == VF32 {
				fl, bits = float64(math.Float32frombits(uint32(v.F))), 32
			} else {
				fl = math.Float64frombits(v.F)
			}
			if math.IsNaN(fl) || math.IsInf(fl, 0) {
				return Val{}, false
			}
			lit := strconv.FormatFloat(fl, 'g', -1, bits)
			return JSONNumberKeep(lit), true
		}
		return v, true
	case VInt:
		if f == UBJSON && !v.FitsInt64() {
			if v.Neg {
				return Val{}, false
			}
			return Val{K: VHighPrec, S: v.IntString()}, true
		}
		return v, true
	case VArr, VObj:
		out := Val{K: v.K, Keys: v.Keys, A: make([]Val, len(v.A))}
		for i, e := range v.A {
			var ok bool
			if out.A[i], ok = ForFormat(e, f); !ok {
				return Val{}, false
			}
		}
		return out, true
	}
	return v, true
}

// JSONNumberKeep keeps a float literal as a literal even if it has integer
// syntax (e.g. "3" for 3.0), so that the writer emits exactly this text.
func JSONNumberKeep(lit string) Val { return Val{K: VNum, S: lit} }
