package model

import (
	"encoding/binary"

	"verif/simkit"
)

// cborHead writes major type + argument with a drawn (possibly non-minimal) width.
func (w *docWriter) cborHead(major byte, arg uint64, minimalOnly bool) {
	minW := 0 // 0: inline, 1,2,4,8 bytes
	switch {
	case arg < 24:
		minW = 0
	case arg <= 0xff:
		minW = 1
	case arg <= 0xffff:
		minW = 2
	case arg <= 0xffffffff:
		minW = 4
	default:
		minW = 8
	}
	widths := []int{0, 1, 2, 4, 8}
	wd := minW
	if !minimalOnly && w.c.N(4) == 0 {
		// pick any width >= minimal
		var cand []int
		for _, x := range widths {
			if x >= minW {
				cand = append(cand, x)
			}
		}
		wd = cand[w.c.N(len(cand))]
	}
	switch wd {
	case 0:
		w.b = append(w.b, major<<5|byte(arg))
	case 1:
		w.b = append(w.b, major<<5|24, byte(arg))
	case 2:
		w.b = append(w.b, major<<5|25, 0, 0)
		binary.BigEndian.PutUint16(w.b[len(w.b)-2:], uint16(arg))
	case 4:
		w.b = append(w.b, major<<5|26, 0, 0, 0, 0)
		binary.BigEndian.PutUint32(w.b[len(w.b)-4:], uint32(arg))
	default:
		w.b = append(w.b, major<<5|27, 0, 0, 0, 0, 0, 0, 0, 0)
		binary.BigEndian.PutUint64(w.b[len(w.b)-8:], arg)
	}
}

func (w *docWriter) cborVal(v Val, depth int, minimal bool) {
	beat()
	s := len(w.b)
	switch v.K {
	case VNull:
		w.b = append(w.b, 0xf6)
		w.tok(s, "lit", depth)
	case VUndef:
		w.b = append(w.b, 0xf7)
		w.tok(s, "lit", depth)
	case VBool:
		if v.B {
			w.b = append(w.b, 0xf5)
		} else {
			w.b = append(w.b, 0xf4)
		}
		w.tok(s, "lit", depth)
	case VInt:
		if v.Neg {
			w.cborHead(1, v.U, minimal)
		} else {
			w.cborHead(0, v.U, minimal)
		}
		w.tok(s, "int", depth)
	case VF32:
		w.b = append(w.b, 0xfa, 0, 0, 0, 0)
		binary.BigEndian.PutUint32(w.b[len(w.b)-4:], uint32(v.F))
		w.tok(s, "float", depth)
	case VF64:
		w.b = append(w.b, 0xfb, 0, 0, 0, 0, 0, 0, 0, 0)
		binary.BigEndian.PutUint64(w.b[len(w.b)-8:], v.F)
		w.tok(s, "float", depth)
	case VText:
		w.cborHead(3, uint64(len(v.S)), minimal)
		w.tok(s, "len", depth)
		s2 := len(w.b)
		w.b = append(w.b, v.S...)
		w.tok(s2, "str", depth)
	case VBytes:
		w.cborHead(2, uint64(len(v.S)), minimal)
		w.tok(s, "len", depth)
		s2 := len(w.b)
		w.b = append(w.b, v.S...)
		w.tok(s2, "bytes", depth)
	case VArr:
		indef := !minimal && w.c.N(3) == 0
		if indef {
			w.b = append(w.b, 0x9f)
		} else {
			w.cborHead(4, uint64(len(v.A)), minimal)
		}
		w.tok(s, "head", depth)
		for _, e := range v.A {
			w.cborVal(e, depth+1, minimal)
		}
		if indef {
			s := len(w.b)
			w.b = append(w.b, 0xff)
			w.tok(s, "punct", depth)
		}
	case VObj:
		indef := !minimal && w.c.N(3) == 0
		if indef {
			w.b = append(w.b, 0xbf)
		} else {
			w.cborHead(5, uint64(len(v.A)), minimal)
		}
		w.tok(s, "head", depth)
		for i, e := range v.A {
			s := len(w.b)
			w.cborHead(3, uint64(len(v.Keys[i])), minimal)
			w.tok(s, "len", depth)
			s = len(w.b)
			w.b = append(w.b, v.Keys[i]...)
			w.tok(s, "key", depth)
			w.cborVal(e, depth+1, minimal)
		}
		if indef {
			s := len(w.b)
			w.b = append(w.b, 0xff)
			w.tok(s, "punct", depth)
		}
	default:
		panic("model: value kind not representable in CBOR: " + v.String())
	}
}

// WriteCBORStream writes the values as a concatenated CBOR sequence.
func WriteCBORStream(c *simkit.Choices, vals []Val) *Doc {
	w := &docWriter{c: c}
	minimal := c.N(4) == 0
	d := &Doc{Format: string(CBOR), Vals: vals}
	for _, v := range vals {
		s := len(w.b)
		w.cborVal(v, 0, minimal)
		d.Values = append(d.Values, [2]int{s, len(w.b)})
		d.OpenEnd = append(d.OpenEnd, false)
	}
	d.Bytes, d.Tokens = w.b, w.toks
	return d
}
