package model

import (
	"fmt"
	"unicode/utf8"

	"verif/simkit"
)

// docWriter accumulates bytes and tokens.
type docWriter struct {
	b    []byte
	toks []Token
	c    *simkit.Choices
}

func (w *docWriter) tok(start int, kind string, depth int) {
	w.toks = append(w.toks, Token{S: start, E: len(w.b), Kind: kind, Depth: depth})
}

// JSONStyle controls representation choices of the independent JSON writer.
type JSONStyle struct {
	WS      int // 0 none, 1 sparse, 2 heavy
	Escapes int // 0 minimal, 1 mixed, 2 heavy (\uXXXX, surrogate pairs, \/)
}

func drawJSONStyle(c *simkit.Choices) JSONStyle {
	return JSONStyle{WS: c.N(3), Escapes: c.N(3)}
}

func (w *docWriter) jsonWS(st JSONStyle, depth int) {
	if st.WS == 0 {
		return
	}
	p := 6
	if st.WS == 2 {
		p = 2
	}
	if w.c.N(p) != 0 {
		return
	}
	s := len(w.b)
	n := 1 + w.c.N(3)
	for i := 0; i < n; i++ {
		w.b = append(w.b, " \t\n\r"[w.c.N(4)])
	}
	w.tok(s, "ws", depth)
}

func (w *docWriter) jsonString(s string, st JSONStyle, kind string, depth int) {
	start := len(w.b)
	w.b = append(w.b, '"')
	for i := 0; i < len(s); {
		r, sz := utf8.DecodeRuneInString(s[i:])
		ch := s[i : i+sz]
		i += sz
		mode := 0 // raw
		if st.Escapes > 0 && w.c.N(4-st.Escapes) == 0 {
			mode = 1 + w.c.N(2) // 1: short escape if available else \u ; 2: \uXXXX
		}
		switch {
		case r == '"' || r == '\\':
			if mode == 2 {
				w.b = append(w.b, fmt.Sprintf("\\u%04x", r)...)
			} else {
				w.b = append(w.b, '\\', byte(r))
			}
		case r < 0x20:
			short := map[rune]byte{'\b': 'b', '\f': 'f', '\n': 'n', '\r': 'r', '\t': 't'}
			if e, ok := short[r]; ok && mode != 2 {
				w.b = append(w.b, '\\', e)
			} else {
				hex := "%04x"
				if w.c.Bool() {
					hex = "%04X"
				}
				w.b = append(w.b, fmt.Sprintf("\\u"+hex, r)...)
			}
		case r == 0xFFFD && mode == 2:
			// a lone surrogate escape reads back as U+FFFD: a low surrogate
			// anywhere, a high surrogate only at the very end of the string
			// (elsewhere it could pair up with a following escape)
			if i == len(s) && w.c.Bool() {
				w.b = append(w.b, "\\ud800"...)
			} else {
				w.b = append(w.b, "\\udc00"...)
			}
		case r == '/' && mode == 1:
			w.b = append(w.b, '\\', '/')
		case mode == 2 || (mode == 1 && r >= 0x80):
			if r >= 0x10000 {
				r1, r2 := utf16Pair(r)
				w.b = append(w.b, fmt.Sprintf("\\u%04x\\u%04X", r1, r2)...)
			} else {
				w.b = append(w.b, fmt.Sprintf("\\u%04x", r)...)
			}
		default:
			w.b = append(w.b, ch...)
		}
	}
	w.b = append(w.b, '"')
	w.tok(start, kind, depth)
}

func utf16Pair(r rune) (rune, rune) {
	r -= 0x10000
	return 0xd800 + (r>>10)&0x3ff, 0xdc00 + r&0x3ff
}

func (w *docWriter) jsonVal(v Val, st JSONStyle, depth int) {
	beat()
	switch v.K {
	case VNull, VUndef:
		s := len(w.b)
		w.b = append(w.b, "null"...)
		w.tok(s, "lit", depth)
	case VBool:
		s := len(w.b)
		if v.B {
			w.b = append(w.b, "true"...)
		} else {
			w.b = append(w.b, "false"...)
		}
		w.tok(s, "lit", depth)
	case VInt:
		s := len(w.b)
		w.b = append(w.b, v.IntString()...)
		w.tok(s, "int", depth)
	case VNum:
		s := len(w.b)
		w.b = append(w.b, v.S...)
		w.tok(s, "float", depth)
	case VText:
		w.jsonString(v.S, st, "str", depth)
	case VArr:
		s := len(w.b)
		w.b = append(w.b, '[')
		w.tok(s, "punct", depth)
		for i, e := range v.A {
			if i > 0 {
				w.jsonWS(st, depth)
				s := len(w.b)
				w.b = append(w.b, ',')
				w.tok(s, "punct", depth)
			}
			w.jsonWS(st, depth)
			w.jsonVal(e, st, depth+1)
		}
		w.jsonWS(st, depth)
		s = len(w.b)
		w.b = append(w.b, ']')
		w.tok(s, "punct", depth)
	case VObj:
		s := len(w.b)
		w.b = append(w.b, '{')
		w.tok(s, "punct", depth)
		for i, e := range v.A {
			if i > 0 {
				w.jsonWS(st, depth)
				s := len(w.b)
				w.b = append(w.b, ',')
				w.tok(s, "punct", depth)
			}
			w.jsonWS(st, depth)
			w.jsonString(v.Keys[i], st, "key", depth)
			w.jsonWS(st, depth)
			s := len(w.b)
			w.b = append(w.b, ':')
			w.tok(s, "punct", depth)
			w.jsonWS(st, depth)
			w.jsonVal(e, st, depth+1)
		}
		w.jsonWS(st, depth)
		s = len(w.b)
		w.b = append(w.b, '}')
		w.tok(s, "punct", depth)
	default:
		panic("model: value kind not representable in JSON: " + v.String())
	}
}

// WriteJSONStream writes the values as one whitespace-separated JSON stream.
// Representation choices are drawn from c. trailingWS adds whitespace after
// the last value.
func WriteJSONStream(c *simkit.Choices, vals []Val, trailingWS bool) *Doc {
	w := &docWriter{c: c}
	st := drawJSONStyle(c)
	d := &Doc{Format: string(JSON), Vals: vals}
	for i, v := range vals {
		if i > 0 {
			s := len(w.b)
			w.b = append(w.b, " \n\t\r"[c.N(4)])
			for j, n := 0, c.N(3); j < n; j++ {
				w.b = append(w.b, " \n"[c.N(2)])
			}
			w.tok(s, "ws", 0)
		} else if c.N(6) == 0 {
			s := len(w.b)
			w.b = append(w.b, ' ')
			w.tok(s, "ws", 0)
		}
		s := len(w.b)
		w.jsonVal(v, st, 0)
		d.Values = append(d.Values, [2]int{s, len(w.b)})
		d.OpenEnd = append(d.OpenEnd, v.K == VInt || v.K == VNum)
	}
	if trailingWS {
		s := len(w.b)
		w.b = append(w.b, " \n"[c.N(2)])
		w.tok(s, "ws", 0)
	}
	d.Bytes, d.Tokens = w.b, w.toks
	return d
}
