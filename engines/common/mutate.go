package common

import (
	"bytes"

	"verif/model"
	"verif/simkit"
)

// Fault is one corruption applied by the simulated transport.
type Fault struct {
	Kind string `json:"kind"`
	Pos  int    `json:"pos"`
	Arg  int    `json:"arg"`
}

var interesting = []byte{0x00, 0xff, 0x7f, 0x80, '"', '\\', '[', ']', '{', '}', '#', '$', 'N', 'S', 'H', 'L', 'l', 'I', 'U', 'i', 'Z', 'T', 'F', 'C', 'd', 'D',
	0x1f, 0x3c, 0x5f, 0x7f, 0x9f, 0xbf, 0xdf, 0xff, 0xc0, 0xf9, 0x1c, 0x1d, 0x1e, 0x18, 0x19, 0x1a, 0x1b, 0x3b, 0x5b, 0x7b, 0x9b, 0xbb, 0xfa, 0xfb,
	'u', 'e', 'E', '-', '+', '.', ',', ':', ' ', 't', 'f', 'n', '0', '9',
	0x85, 0xa0, 0x0b, 0x0c, 0x1c, 0x1d, 0x1e, 0x1f, 0x09, 0x0a, 0x0d, 0xc2, 0xe2, 0xef, 0xbb, 0xbf}

var lenientJSON = [][]byte{
	{0xef, 0xbb, 0xbf}, {0xff, 0xfe}, {0xfe, 0xff}, {0x1e}, []byte(")]}'\n"), []byte("//c\n"), []byte("/*c*/"), []byte("#c\n"), []byte(","), []byte(",,"),
	[]byte("NaN"), []byte("Infinity"), []byte("-Infinity"), []byte("+1"), []byte("0x10"), []byte("'a'"), []byte(".5"), []byte("1."), []byte("01"), []byte("1_0"),
	[]byte("True"), []byte("None"), []byte("undefined"), []byte("nil"), []byte("\\\n"), {0xe2, 0x80, 0xa8}, {0xc2, 0xa0}, {0xe3, 0x80, 0x80}, {0x00},
}

var lenientCBOR = [][]byte{
	{0xd9, 0xd9, 0xf7}, {0xc0}, {0xc1}, {0xc2}, {0xd8, 0x18}, {0xd8, 0x20}, {0xda, 0, 0, 0, 1}, {0xdb, 0, 0, 0, 0, 0, 0, 0, 1}, {0xf9, 0x3c, 0x00}, {0xf8, 0x20}, {0xe0}, {0xf0},
	{0x5f}, {0x7f}, {0xff}, {0xf7}, {0xf6}, {0x40}, {0x60},
}

var lenientUBJSON = [][]byte{
	{'[', '$', 'N', '#', 'i', 3}, {'{', '$', 'N', '#', 'i', 2}, {'[', '$', 'N', '#', 'U', 200}, {'$', 'N'}, {'[', '$', 'N'},
	{'N'}, {'N', 'N'}, {'Z'}, {'#'}, {'$'}, {'H', 'i', 1, '1'}, {'C', 'a'}, {'S', 'i', 0}, {' '}, {'\n'}, {0xef, 0xbb, 0xbf}, {'h'}, {'B'}, {'s'},
}

// Corrupt applies n seeded corruptions to a copy of doc and returns the result.
func Corrupt(c *simkit.Choices, doc *model.Doc, n int, st *simkit.Stats) ([]byte, []Fault) {
	b := simkit.Exact(doc.Bytes)
	var faults []Fault
	for i := 0; i < n; i++ {
		if len(b) == 0 {
			b = append(b, byte(c.N(256)))
			continue
		}
		pos := c.N(len(b))
		// aim: half of the time at the start of a token (markers, heads, lengths)
		if len(doc.Tokens) > 0 && c.Bool() {
			t := doc.Tokens[c.N(len(doc.Tokens))]
			if t.S < len(b) {
				pos = t.S
				if t.E-t.S > 1 && c.Bool() {
					pos = t.S + c.N(t.E-t.S)
					if pos >= len(b) {
						pos = len(b) - 1
					}
				}
			}
		}
		f := Fault{Pos: pos}
		if c.N(6) == 0 {
			// syntax that lenient readers of the format accept and strict ones
			// refuse (byte order marks, comments, trailing commas, record
			// separators, other spellings of literals; CBOR tags, self-describe
			// magic, half floats, simple values), at the start of the input or
			// of a token: a leniency added to ONE code path or entry point only
			// makes the verdict depend on how the bytes arrive
			var snips [][]byte
			switch doc.Format {
			case string(model.JSON):
				snips = lenientJSON
			case string(model.CBOR):
				snips = lenientCBOR
			default:
				snips = lenientUBJSON
			}
			at := 0
			if len(doc.Tokens) > 0 && c.N(3) != 0 {
				t := doc.Tokens[c.N(len(doc.Tokens))]
				if at = t.S; c.N(4) == 0 {
					at = t.E
				}
				if at > len(b) {
					at = len(b)
				}
			}
			k := c.N(len(snips))
			nb := append([]byte{}, b[:at]...)
			nb = append(nb, snips[k]...)
			nb = append(nb, b[at:]...)
			b = nb
			f.Kind, f.Pos, f.Arg = "lenient-syntax", at, k
			st.Fault("corrupt-" + f.Kind)
			faults = append(faults, f)
			continue
		}
		if doc.Format == string(model.JSON) && c.N(10) == 0 {
			// a trailing comma right before a closing bracket or brace (the
			// most widespread leniency of all), with optional white space
			var closers []int
			for _, t := range doc.Tokens {
				if t.Kind == "punct" && t.S < len(b) && (b[t.S] == '}' || b[t.S] == ']') {
					closers = append(closers, t.S)
				}
			}
			if len(closers) > 0 {
				at := closers[c.N(len(closers))]
				ins := [][]byte{{','}, {',', ' '}, {' ', ','}, {',', '\n'}}[c.N(4)]
				nb := append([]byte{}, b[:at]...)
				nb = append(nb, ins...)
				nb = append(nb, b[at:]...)
				b = nb
				f.Kind, f.Pos = "json-trailing-comma", at
				st.Fault("corrupt-" + f.Kind)
				faults = append(faults, f)
				continue
			}
		}
		if doc.Format == string(model.JSON) && c.N(6) == 0 {
			// a byte that some whitespace tests accept and others do not
			// (Latin-1 NEL / NBSP, VT, FF, the separators 0x1c-0x1f), placed
			// next to ordinary whitespace or punctuation
			var spots []int
			for _, t := range doc.Tokens {
				if (t.Kind == "ws" || t.Kind == "punct") && t.E <= len(b) {
					spots = append(spots, t.S, t.E)
				}
			}
			if len(spots) > 0 {
				at := spots[c.N(len(spots))]
				odd := []byte{0x85, 0xa0, 0x0b, 0x0c, 0x1c, 0x1f, ' ', 0x09}[c.N(8)]
				ins := []byte{odd}
				if c.Bool() {
					ins = []byte{' ', odd} // right after an ordinary space
				}
				nb := append([]byte{}, b[:at]...)
				nb = append(nb, ins...)
				nb = append(nb, b[at:]...)
				b = nb
				f.Kind, f.Pos, f.Arg = "json-odd-whitespace", at, int(odd)
				st.Fault("corrupt-" + f.Kind)
				faults = append(faults, f)
				continue
			}
		}
		if doc.Format == string(model.JSON) && c.N(4) == 0 {
			// a broken escape inside a string token, optionally moved right in
			// front of the closing quote (the rest of the string is dropped)
			var strs []model.Token
			for _, t := range doc.Tokens {
				if (t.Kind == "str" || t.Kind == "key") && t.E <= len(b) && t.E-t.S >= 2 {
					strs = append(strs, t)
				}
			}
			if len(strs) > 0 {
				t := strs[c.N(len(strs))]
				sn := jsonSnippets[c.N(len(jsonSnippets))]
				at := t.S + 1 + c.N(t.E-t.S-1)
				end := at
				if c.Bool() {
					end = t.E - 1 // drop everything up to the closing quote
				}
				if at <= end && end <= len(b) {
					f.Kind, f.Pos, f.Arg = "json-broken-escape", at, end-at
					nb := simkit.Exact(b[:at])
					nb = append(nb, sn...)
					nb = append(nb, b[end:]...)
					if c.N(3) == 0 && end == t.E-1 {
						nb = nb[:at+len(sn)+1] // the document ends with this string's closing quote
						f.Kind = "json-broken-escape-at-end"
					}
					b = nb
					st.Fault("corrupt-" + f.Kind)
					faults = append(faults, f)
					continue
				}
			}
		}
		if (doc.Format == string(model.CBOR) || doc.Format == string(model.UBJSON)) && c.N(5) == 0 {
			// length bomb: a length/count/head token is replaced by a 64-bit
			// length that the input does not back with data
			var lens []model.Token
			for _, t := range doc.Tokens {
				if (t.Kind == "len" || t.Kind == "head") && t.E <= len(b) {
					lens = append(lens, t)
				}
			}
			if len(lens) > 0 {
				t := lens[c.N(len(lens))]
				big := bigLengths[c.N(len(bigLengths))]
				var hdr []byte
				if doc.Format == string(model.CBOR) {
					hdr = []byte{b[t.S]&0xe0 | 27, 0, 0, 0, 0, 0, 0, 0, 0}
				} else {
					hdr = []byte{'L', 0, 0, 0, 0, 0, 0, 0, 0}
				}
				for i := 0; i < 8; i++ {
					hdr[1+i] = byte(big >> (56 - 8*uint(i)))
				}
				if c.N(4) == 0 { // 32-bit variant
					if doc.Format == string(model.CBOR) {
						hdr = []byte{b[t.S]&0xe0 | 26, 0x7f, 0xff, 0xff, 0xff}
					} else {
						hdr = []byte{'l', 0x7f, 0xff, 0xff, 0xff}
					}
				}
				nb := append([]byte{}, b[:t.S]...)
				nb = append(nb, hdr...)
				nb = append(nb, b[t.E:]...)
				b = nb
				f.Kind, f.Pos = "length-bomb", t.S
				st.Fault("corrupt-" + f.Kind)
				faults = append(faults, f)
				continue
			}
		}
		switch c.N(8) {
		case 0:
			f.Kind, f.Arg = "bitflip", c.N(8)
			b[pos] ^= 1 << uint(f.Arg)
		case 1:
			f.Kind, f.Arg = "replace", c.N(256)
			b[pos] = byte(f.Arg)
		case 2, 3:
			f.Kind = "replace-interesting"
			f.Arg = int(interesting[c.N(len(interesting))])
			b[pos] = byte(f.Arg)
		case 4:
			f.Kind, f.Arg = "insert", int(interesting[c.N(len(interesting))])
			b = append(b[:pos], append([]byte{byte(f.Arg)}, b[pos:]...)...)
		case 5:
			f.Kind = "delete"
			b = append(b[:pos], b[pos+1:]...)
		case 6:
			f.Kind = "truncate"
			b = b[:pos]
		default:
			// inflate: overwrite up to 8 bytes with 0xff / 0x7f (length fields)
			f.Kind, f.Arg = "inflate", 1+c.N(8)
			fill := byte(0xff)
			if c.Bool() {
				fill = 0x7f
			}
			for j := 0; j < f.Arg && pos+1+j < len(b); j++ {
				b[pos+1+j] = fill
				fill = 0xff
			}
		}
		st.Fault("corrupt-" + f.Kind)
		faults = append(faults, f)
	}
	return b, faults
}

// HasPayloadlessTyped recognises UBJSON "$Z#", "$T#", "$F#" container headers:
// the trigger predicate of known finding C03-ubjson-payloadless-typed-container
// (cost proportional to the announced count, not to the input).
func HasPayloadlessTyped(b []byte) bool {
	for _, m := range []string{"$Z#", "$T#", "$F#"} {
		if bytes.Contains(b, []byte(m)) {
			return true
		}
	}
	return false
}

var jsonSnippets = []string{`\`, `\u`, `\u1`, `\u12`, `\u123`, `\ud800`, `\ud800\`, `\ud800\u`, `\ud800\u1`, `\ud800\ud`, `\ud800\udc0`,
	`\udc00\u12`, `\uD83D\uDE0`, `\ud83d\ude00`, `\x`, `\'`, `\u00zz`, `\ud800\u0041`, "\x80", "\xff\xfe", "\xc3", "\xe4\xb8", "\xf0\x9f\x98", "\n", "\x00", `\u0000`}

var bigLengths = []uint64{1 << 31, 1<<31 - 1, 1 << 32, 1<<32 - 1, 1 << 40, 1<<63 - 1, 1 << 63, 1<<64 - 1, 1 << 62, 1 << 20, 1 << 16}

// NestBomb builds an input of n nested container openings (optionally closed).
func NestBomb(c *simkit.Choices, f model.Format) []byte {
	return NestBombN(c, f, []int{31, 32, 33, 63, 64, 65, 100, 1000, 5000}[c.N(9)])
}

// NestBombN is NestBomb with a given number of levels.
func NestBombN(c *simkit.Choices, f model.Format, n int) []byte {
	var open, close []byte
	switch f {
	case model.JSON:
		if c.Bool() {
			open, close = []byte("["), []byte("]")
		} else {
			open, close = []byte(`{"a":`), []byte("}")
		}
	case model.CBOR:
		switch c.N(4) {
		case 0:
			open = []byte{0x81}
		case 1:
			open, close = []byte{0x9f}, []byte{0xff}
		case 2:
			open = []byte{0xa1, 0x61, 'a'}
		default:
			open, close = []byte{0xbf, 0x61, 'a'}, []byte{0xff}
		}
	default:
		switch c.N(4) {
		case 0:
			open, close = []byte("["), []byte("]")
		case 1:
			open = []byte("[#i\x01")
		case 2:
			open, close = []byte("{i\x01a"), []byte("}")
		default:
			open = []byte("[$[#i\x01")
		}
	}
	var b []byte
	for i := 0; i < n; i++ {
		b = append(b, open...)
	}
	switch f {
	case model.JSON:
		b = append(b, '1')
	case model.CBOR:
		b = append(b, 0x01)
	default:
		if string(open) != "[$[#i\x01" {
			b = append(b, 'Z')
		} else {
			b = append(b, ']')
		}
	}
	closers := n
	if c.N(3) == 0 {
		closers = c.N(n + 2) // unbalanced
	}
	for i := 0; i < closers && len(close) > 0; i++ {
		b = append(b, close...)
	}
	return b
}
