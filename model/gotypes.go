package model

import (
	"errors"
	"fmt"

	structform "github.com/elastic/go-structform"
	"github.com/elastic/go-structform/gotype"

	"math"
	"reflect"
	"strings"

	"verif/simkit"
)

// ---- catalogue types -------------------------------------------------------

type Inner struct {
	X int8
	Y uint16
	Z string
}

type Simple struct {
	A int
	B string
	C bool
	D float64
	E []string
}

type Tagged struct {
	Name   string      `struct:"name"`
	Skip   int         `struct:"-"`
	Opt    string      `struct:"opt,omitempty"`
	Num    *int        `struct:"num,omitempty"`
	In     Inner       `struct:",inline"`
	Ifc    interface{} `struct:"ifc"`
	hidden int
}

type Nested struct {
	S  Simple
	P  *Simple
	L  []Simple
	M  map[string]Simple
	PP **int
	I  Inner `struct:"inner"`
}

type Strs struct {
	First  string
	Second string
	Tags   []string
	Attrs  map[string]string
	Any    interface{}
}

type InlineMap struct {
	A string
	M map[string]interface{} `struct:",inline"`
	Z int
}

type InlineTyped struct {
	S map[string]string `struct:",inline"`
	N map[string]int    `struct:",inline"`
	B map[string]bool   `struct:",inline"`
}

// Wide has many fields in front of struct-typed fields, so that a field
// pointer computed from the wrong base lands outside the value.
type Wide struct {
	A, B, C, D, E, F, G, H string
	N1, N2, N3, N4         int64
	Mid                    Inner
	L1, L2                 []string
	M1                     map[string]string
	Last                   Simple
	Tail                   Inner
}

// Holder contains model.Inner in every container position; it is the shared
// enclosing type for per-instance custom folders/unfolders of Inner (C19).
type Holder struct {
	A Inner
	L []Inner
	P *Inner
	M map[string]Inner
}

// HolderSub / HolderInline: model.Inner behind every way one struct type can
// reach another (inlined, nested, pointer, slice and map of the sub-struct):
// whatever the library derives per sub-struct type (field tables, compiled
// folders) is derived here under per-instance custom folders/unfolders.
type HolderSub struct {
	A Inner
	L []Inner
}

type HolderInline struct {
	X    string
	Sub  HolderSub `struct:",inline"`
	Deep HolderSub
	PS   *HolderSub
	LS   []HolderSub
	MS   map[string]HolderSub
}

// OrderedKV is unfolded through a user-defined gotype.UnfoldState (Expander)
// that RETAINS the keys and strings it receives, and folded through Folder.
type OrderedKV struct {
	Keys []string
	Vals []string
}

func (o OrderedKV) Fold(v structform.ExtVisitor) error {
	if err := v.OnObjectStart(len(o.Keys), structform.StringType); err != nil {
		return err
	}
	for i, k := range o.Keys {
		if err := v.OnKey(k); err != nil {
			return err
		}
		if err := v.OnString(o.Vals[i]); err != nil {
			return err
		}
	}
	return v.OnObjectFinished()
}

func (o *OrderedKV) Expand() gotype.UnfoldState { return &orderedKVState{to: o} }

type orderedKVState struct {
	gotype.BaseUnfoldState
	to   *OrderedKV
	open bool
}

var errKVObjectExpected = errors.New("OrderedKV: an object of strings is expected")

// (strict: anything but an object start is refused while no object is open -
// a user state that swallowed a scalar there without calling Done would leave
// the library's stacks in a state only it knows about)
func (s *orderedKVState) OnObjectStart(ctx gotype.UnfoldCtx, _ int, _ structform.BaseType) error {
	if s.open {
		return errKVObjectExpected
	}
	s.open = true
	s.to.Keys, s.to.Vals = nil, nil
	return nil
}
func (s *orderedKVState) OnKey(ctx gotype.UnfoldCtx, key string) error {
	if !s.open {
		return errKVObjectExpected
	}
	s.to.Keys = append(s.to.Keys, key) // retained as delivered
	return nil
}
func (s *orderedKVState) OnString(ctx gotype.UnfoldCtx, str string) error {
	if !s.open {
		return errKVObjectExpected
	}
	s.to.Vals = append(s.to.Vals, str)
	return nil
}
func (s *orderedKVState) OnNil(ctx gotype.UnfoldCtx) error {
	if !s.open {
		return errKVObjectExpected
	}
	s.to.Vals = append(s.to.Vals, "")
	return nil
}
func (s *orderedKVState) OnObjectFinished(ctx gotype.UnfoldCtx) error {
	if !s.open {
		return errKVObjectExpected
	}
	ctx.Done()
	return nil
}

type WithKV struct {
	Name string
	KV   OrderedKV
	List []OrderedKV
}

func genOrderedKV(c *simkit.Choices) OrderedKV {
	var o OrderedKV
	for i, n := 0, c.Small(5); i < n; i++ {
		o.Keys = append(o.Keys, GenKey(c, 40))
		o.Vals = append(o.Vals, genStr(c))
	}
	return o
}

type InlineIfc struct {
	A string
	I interface{} `struct:",inline"`
	Z int
}

// Labels implements gotype.Folder on a nilable kind (an inline Folder field
// of a non-nilable kind makes the library call reflect.Value.IsNil on it and
// panic - a defect of the unclaimed property C11/C12, kept out of the catalogue).
type Labels map[string]string

func (l Labels) Fold(v structform.ExtVisitor) error {
	if err := v.OnObjectStart(len(l), structform.StringType); err != nil {
		return err
	}
	for k, s := range l {
		if err := v.OnKey("label." + k); err != nil {
			return err
		}
		if err := v.OnString(s); err != nil {
			return err
		}
	}
	return v.OnObjectFinished()
}

type InlineFolder struct {
	A string
	T Labels `struct:",inline"`
	Z []string
}

// Two outer types inlining the same pointer, map, struct and interface types:
// whatever an iterator caches per inlined type is shared between them.
type InlinePtrA struct {
	ID    int
	Inner *Inner `struct:",inline"`
}

type InlinePtrB struct {
	Name  string
	Inner *Inner                 `struct:",inline"`
	M     map[string]interface{} `struct:",inline"`
}

type InlineValB struct {
	Inner Inner       `struct:",inline"`
	I     interface{} `struct:",inline"`
	Tail  string
}

// Shape is an interface WITH methods: values stored in it have another memory
// layout (itab word) than values stored in interface{}.
type Shape interface{ Area() float64 }

type Sq struct{ Side float64 }

func (s Sq) Area() float64 { return s.Side * s.Side }

type Circ struct {
	R     float64
	Label string
}

func (c *Circ) Area() float64 { return 3 * c.R * c.R }

type ShapeMap map[string]Shape

type Shapes struct {
	One Shape
	M   map[string]Shape
	L   []Shape
	N   ShapeMap
	In  map[string]Shape `struct:",inline"`
}

// Odd contains a kind the library cannot fold by itself (complex128): it is
// foldable only by an iterator that registers a user-defined folder for it.
type Odd struct {
	A string
	C complex128
	L []complex128
	P *complex128
}

// LongNames has several field names of equal length >= 24 bytes, all omitted
// when zero: documents carry drawn subsets of them.
type LongNames struct {
	One   string `struct:"a_rather_long_field_name_number_one,omitempty"`
	Two   string `struct:"a_rather_long_field_name_number_two,omitempty"`
	Six   *int   `struct:"a_rather_long_field_name_number_six,omitempty"`
	Ten   []int  `struct:"a_rather_long_field_name_number_ten,omitempty"`
	Short string `struct:"s,omitempty"`
	Other string `struct:"b_rather_long_field_name_number_one,omitempty"`
}

// ZeroS reports itself empty through gotype.IsZeroer; PlainS has the same
// layout and kind but no such method; ZeroI / PlainI likewise for an int kind.
type ZeroS struct{ X int }

func (z ZeroS) IsZero() bool { return z.X == 0 }

type PlainS struct{ X int }

type ZeroI int

func (z ZeroI) IsZero() bool { return z == 7 } // "empty" is not the zero value

type PlainI int

// AlwaysEmpty gives every struct that embeds it an IsZero method. twinA and
// twinB return values of two DISTINCT function-local types that print alike
// ("model.twin"): one reports itself empty, the other is a plain struct.
type AlwaysEmpty struct{}

func (AlwaysEmpty) IsZero() bool { return true }

func twinA() interface{} {
	type twin struct{ AlwaysEmpty }
	return twin{}
}

func twinB(n int) interface{} {
	type twin struct{ N int }
	return twin{N: n}
}

// OmitIfc has omitempty fields of interface type: whether the field is
// reported depends on the dynamic type in it.
type OmitIfc struct {
	ID int
	V  interface{} `struct:"v,omitempty"`
	W  interface{} `struct:"w,omitempty"`
	Z  ZeroS       `struct:"z,omitempty"`
	P  PlainS      `struct:"p,omitempty"`
}

// Pair and Quad are named array types with Triple's element type.
type Pair [2]int16
type Quad [4]int16

// BadField cannot be unfolded into (a map with non-string keys), although the
// fields before and after it can: SetTarget must refuse it, every time.
type BadField struct {
	A int
	M map[int]string
	Z string
}

type HasBad struct {
	Name string
	B    BadField
	P    *BadField
}

// Namer is an interface WITH methods: no document can produce a value for it,
// so a target that holds one (field, element) must be refused by SetTarget -
// treating its two words as an empty interface is type confusion.
type Namer interface{ Name() string }

type IfaceField struct {
	A string
	S Namer
	Z string
}

type HasIface struct {
	N string
	L []Namer
	M map[string]Namer
}

// OptInt reports emptiness through a POINTER-receiver IsZero and folds itself.
type OptInt struct {
	Set bool
	V   int
}

func (o *OptInt) IsZero() bool { return o == nil || !o.Set }
func (o *OptInt) Fold(v structform.ExtVisitor) error {
	if o != nil && o.Set {
		return v.OnInt(o.V)
	}
	return v.OnNil()
}

type Opts struct {
	A OptInt  `struct:"a,omitempty"`
	B OptInt  `struct:"b,omitempty"`
	P *OptInt `struct:"p,omitempty"`
	N int
}

// Label is unfolded through a user-defined primitive unfolder that RETAINS the
// string it is handed (see UnfolderOpts).
type Label struct{ S string }

type Labeled struct {
	Name string
	L    Label
	P    *Label
	LL   []Label
	M    map[string]Label
}

// P<Kind> wrap one primitive each; they fold as the bare primitive and are
// unfolded only through the user-defined primitive unfolders of PrimUnfolders
// (gotype.Unfolders(func(*T, <kind>) error)): one generated unfolder per kind.
// Tag marks a value that went through the callback.
type PBool struct {
	V   bool
	Tag bool
}

func (p PBool) Fold(v structform.ExtVisitor) error { return v.OnBool(p.V) }

type PInt struct {
	V   int
	Tag bool
}

func (p PInt) Fold(v structform.ExtVisitor) error { return v.OnInt(p.V) }

type PInt8 struct {
	V   int8
	Tag bool
}

func (p PInt8) Fold(v structform.ExtVisitor) error { return v.OnInt8(p.V) }

type PInt16 struct {
	V   int16
	Tag bool
}

func (p PInt16) Fold(v structform.ExtVisitor) error { return v.OnInt16(p.V) }

type PInt32 struct {
	V   int32
	Tag bool
}

func (p PInt32) Fold(v structform.ExtVisitor) error { return v.OnInt32(p.V) }

type PInt64 struct {
	V   int64
	Tag bool
}

func (p PInt64) Fold(v structform.ExtVisitor) error { return v.OnInt64(p.V) }

type PUint struct {
	V   uint
	Tag bool
}

func (p PUint) Fold(v structform.ExtVisitor) error { return v.OnUint(p.V) }

type PUint8 struct {
	V   uint8
	Tag bool
}

func (p PUint8) Fold(v structform.ExtVisitor) error { return v.OnUint8(p.V) }

type PUint16 struct {
	V   uint16
	Tag bool
}

func (p PUint16) Fold(v structform.ExtVisitor) error { return v.OnUint16(p.V) }

type PUint32 struct {
	V   uint32
	Tag bool
}

func (p PUint32) Fold(v structform.ExtVisitor) error { return v.OnUint32(p.V) }

type PUint64 struct {
	V   uint64
	Tag bool
}

func (p PUint64) Fold(v structform.ExtVisitor) error { return v.OnUint64(p.V) }

type PFloat32 struct {
	V   float32
	Tag bool
}

func (p PFloat32) Fold(v structform.ExtVisitor) error { return v.OnFloat32(p.V) }

type PFloat64 struct {
	V   float64
	Tag bool
}

func (p PFloat64) Fold(v structform.ExtVisitor) error { return v.OnFloat64(p.V) }

type Prims struct {
	Bool    PBool
	Int     PInt
	Int8    PInt8
	Int16   PInt16
	Int32   PInt32
	Int64   PInt64
	Uint    PUint
	Uint8   PUint8
	Uint16  PUint16
	Uint32  PUint32
	Uint64  PUint64
	Float32 PFloat32
	Float64 PFloat64
	PI      *PInt16
	LU      []PUint8
	MF      map[string]PFloat32
}

// PrimUnfolders registers a primitive user unfolder for every P<Kind> type.
func PrimUnfolders() gotype.UnfoldOption {
	return gotype.Unfolders(
		func(to *PBool, v bool) error { to.V, to.Tag = v, true; return nil },
		func(to *PInt, v int) error { to.V, to.Tag = v, true; return nil },
		func(to *PInt8, v int8) error { to.V, to.Tag = v, true; return nil },
		func(to *PInt16, v int16) error { to.V, to.Tag = v, true; return nil },
		func(to *PInt32, v int32) error { to.V, to.Tag = v, true; return nil },
		func(to *PInt64, v int64) error { to.V, to.Tag = v, true; return nil },
		func(to *PUint, v uint) error { to.V, to.Tag = v, true; return nil },
		func(to *PUint8, v uint8) error { to.V, to.Tag = v, true; return nil },
		func(to *PUint16, v uint16) error { to.V, to.Tag = v, true; return nil },
		func(to *PUint32, v uint32) error { to.V, to.Tag = v, true; return nil },
		func(to *PUint64, v uint64) error { to.V, to.Tag = v, true; return nil },
		func(to *PFloat32, v float32) error { to.V, to.Tag = v, true; return nil },
		func(to *PFloat64, v float64) error { to.V, to.Tag = v, true; return nil },
	)
}

// Colls has a slice field and a map field of every primitive element kind
// (struct fields are unfolded through another lookup than top-level targets).
type Colls struct {
	LBool []bool
	MBool map[string]bool
	LStr  []string
	MStr  map[string]string
	LInt  []int
	MInt  map[string]int
	LI8   []int8
	MI8   map[string]int8
	LI16  []int16
	MI16  map[string]int16
	LI32  []int32
	MI32  map[string]int32
	LI64  []int64
	MI64  map[string]int64
	LUint []uint
	MUint map[string]uint
	LU8   []uint8
	MU8   map[string]uint8
	LU16  []uint16
	MU16  map[string]uint16
	LU32  []uint32
	MU32  map[string]uint32
	LU64  []uint64
	MU64  map[string]uint64
	LF32  []float32
	MF32  map[string]float32
	LF64  []float64
	MF64  map[string]float64
	LIfc  []interface{}
	MIfc  map[string]interface{}
}

// Nest2 has slices of slices and maps of slices (the inner container is
// unfolded by reflection) of several element kinds.
type Nest2 struct {
	ABool [][]bool
	AStr  [][]string
	AInt  [][]int
	AI8   [][]int8
	AI16  [][]int16
	AI32  [][]int32
	AI64  [][]int64
	AUint [][]uint
	AU8   [][]uint8
	AU16  [][]uint16
	AU32  [][]uint32
	AU64  [][]uint64
	AF32  [][]float32
	AF64  [][]float64
	MS    map[string][]uint16
	SM    []map[string]int8
	MM    map[string]map[string]float32
}

// N<Kind> are NAMED primitive types (folded by kind through reflection).
type NBool bool
type NStr string
type NInt int
type NI8 int8
type NI16 int16
type NI32 int32
type NI64 int64
type NUint uint
type NU8 uint8
type NU16 uint16
type NU32 uint32
type NU64 uint64
type NF32 float32
type NF64 float64

type NamedPrims struct {
	Bool NBool
	Str  NStr
	Int  NInt
	I8   NI8
	I16  NI16
	I32  NI32
	I64  NI64
	Uint NUint
	U8   NU8
	U16  NU16
	U32  NU32
	U64  NU64
	F32  NF32
	F64  NF64
	L    []NI16
	M    map[string]NU32
	P    *NF32
}

// InlineNums inlines a map of every numeric element kind (one generated
// inline folder per kind).
type InlineNums struct {
	Name string
	U    map[string]uint    `struct:",inline"`
	U8   map[string]uint8   `struct:",inline"`
	U16  map[string]uint16  `struct:",inline"`
	U32  map[string]uint32  `struct:",inline"`
	U64  map[string]uint64  `struct:",inline"`
	I8   map[string]int8    `struct:",inline"`
	I16  map[string]int16   `struct:",inline"`
	I32  map[string]int32   `struct:",inline"`
	I64  map[string]int64   `struct:",inline"`
	F32  map[string]float32 `struct:",inline"`
	F64  map[string]float64 `struct:",inline"`
}

// PtrShaped is a struct that consists of one pointer: Go keeps such a value
// DIRECTLY in an interface word (it is "pointer-shaped"), unlike other structs.
// FolderOpts(3) registers a user-defined folder for it.
type PtrShaped struct{ P *int }

type HasPtrShaped struct {
	Name string
	S    PtrShaped
	L    []PtrShaped
	M    map[string]PtrShaped
	I    interface{}
}

// PtrArr is pointer-shaped too: an array of exactly one pointer lives in the
// interface word itself. FolderOpts(3) registers a user-defined folder for it.
type PtrArr [1]*int

type HasPtrArr struct {
	Name string
	S    PtrArr
	L    []PtrArr
	M    map[string]PtrArr
	I    interface{}
}

// Empty has size zero: slices of it have elements without extent.
type Empty struct{}

type Empties struct {
	E Empty
	L []Empty
	M map[string]Empty
	P *Empty
	N int
}

// Arrays can be folded (by reflection) but not unfolded.
type Triple [3]int16

type ArrHolder struct {
	A [2]string
	B [3]Inner
	C Triple
	D [0]int
	E []([2]uint8)
}

// Embeds has anonymous fields (folded and unfolded under the lower-cased type name).
type Embeds struct {
	Inner
	*Simple
	N int
}

// SmallPtrs points at values narrower than a word.
type SmallPtrs struct {
	A *int8
	B *uint16
	C *bool
	D *float32
	E *uint8
	F *int32
}

type OmitAll struct {
	S string            `struct:"s,omitempty"`
	L []int             `struct:"l,omitempty"`
	M map[string]string `struct:"m,omitempty"`
	P *Inner            `struct:"p,omitempty"`
	I interface{}       `struct:"i,omitempty"`
	E []string          `struct:"e,omitempty"`
	B bool
	F float32
}

type Ptrs struct {
	PS *string
	PI *int64
	PP **string
	PL *[]string
	PM *map[string]int
	PN *Inner
}

// Celsius implements gotype.Folder (custom folding through the interface).
type Celsius float64

func (c Celsius) Fold(v structform.ExtVisitor) error {
	if err := v.OnObjectStart(1, structform.AnyType); err != nil {
		return err
	}
	if err := v.OnKey("celsius"); err != nil {
		return err
	}
	if err := v.OnFloat64(float64(c)); err != nil {
		return err
	}
	return v.OnObjectFinished()
}

type WithFolder struct {
	Name string
	T    Celsius
	TS   []Celsius
}

// Packed* structs consist of equally sized fields without any padding and end
// exactly where the sentinel block begins: a field written with a wider store
// clobbers its neighbour, the last one clobbers the sentinel.
type PackedU8 struct{ A, B, C, D, E, F, G, H uint8 }
type PackedI8 struct{ A, B, C, D, E, F, G, H int8 }
type PackedBool struct{ A, B, C, D, E, F, G, H bool }
type PackedU16 struct{ A, B, C, D uint16 }
type PackedI16 struct{ A, B, C, D int16 }
type PackedU32 struct{ A, B uint32 }
type PackedI32 struct{ A, B int32 }
type PackedF32 struct{ A, B float32 }
type PackedMix struct {
	A uint16
	B uint16
	C uint8
	D int8
	E uint16
	F uint32
	G int16
	H uint16
}

// Tree is a self-referential type that is only ever unfolded through its
// user-defined processing unfolder (TreeUnfolder), whose cell contains Tree
// again: activations of the same user unfolder nest.
type Tree struct {
	V    int
	Kids []Tree
}

type treeCell struct {
	V    int
	Kids []Tree
}

// TreeUnfolder returns the processing unfolder for Tree (a fresh option value).
func TreeUnfolder() gotype.UnfoldOption {
	return gotype.Unfolders(func(_ *Tree) (interface{}, func(*Tree, interface{}) error) {
		cell := &treeCell{}
		return cell, func(to *Tree, c interface{}) error {
			tc, ok := c.(*treeCell)
			if !ok {
				return fmt.Errorf("tree unfolder: foreign cell %T", c)
			}
			to.V, to.Kids = tc.V+1000, tc.Kids
			return nil
		}
	})
}

// TreeExpected is what unfolding TreeEvents(t) through TreeUnfolder must build.
func TreeExpected(t Tree) Tree {
	out := Tree{V: t.V + 1000}
	if t.Kids != nil {
		out.Kids = make([]Tree, len(t.Kids))
		for i, k := range t.Kids {
			out.Kids[i] = TreeExpected(k)
		}
	}
	return out
}

// GenTree draws a tree of depth <= 3.
func GenTree(c *simkit.Choices, depth int) Tree {
	t := Tree{V: c.N(100)}
	if depth < 3 {
		for i, n := 0, c.N(3); i < n; i++ {
			t.Kids = append(t.Kids, GenTree(c, depth+1))
		}
	}
	return t
}

// TreeEvents is the event stream of a Tree (it cannot be folded: the library
// overflows the stack compiling a folder for a self-referential type).
func TreeEvents(t Tree) []simkit.Ev {
	evs := []simkit.Ev{{K: simkit.KObjStart, I: -1}, {K: simkit.KKey, S: "v"}, {K: simkit.KInt, I: int64(t.V)}}
	if t.Kids != nil {
		evs = append(evs, simkit.Ev{K: simkit.KKey, S: "kids"}, simkit.Ev{K: simkit.KArrStart, I: int64(len(t.Kids))})
		for _, k := range t.Kids {
			evs = append(evs, TreeEvents(k)...)
		}
		evs = append(evs, simkit.Ev{K: simkit.KArrEnd})
	}
	return append(evs, simkit.Ev{K: simkit.KObjEnd})
}

// TreeEntry is the (non-catalogue) type entry of Tree.
var TreeEntry = mk("Tree", false, func(c *simkit.Choices) Tree { return GenTree(c, 0) })

// Score is a named integer type for which engines register user-defined
// unfolders (gotype.Unfolders) in three styles; see UnfolderOpts.
type Score int

type Scored struct {
	Name string
	S    Score
	P    *Score
	L    []Score
	M    map[string]Score
}

type NamedFields struct {
	IDs    NamedSlice
	Labels NamedMap
	P      *NamedSlice
	LL     []NamedSlice
}

type scoreState struct {
	gotype.BaseUnfoldState
	to *Score
}

func (s *scoreState) OnInt(ctx gotype.UnfoldCtx, i int64) error {
	*s.to = Score(i) * 2
	ctx.Done()
	return nil
}
func (s *scoreState) OnUint(ctx gotype.UnfoldCtx, u uint64) error {
	*s.to = Score(u) * 2
	ctx.Done()
	return nil
}
func (s *scoreState) OnNil(ctx gotype.UnfoldCtx) error {
	*s.to = -1
	ctx.Done()
	return nil
}

// IntList is unfolded through a user-defined UnfoldState that works in two
// phases: the first state waits for the array start and continues (Cont) with
// a second state that collects the elements until the array ends (Done).
// Nested arrays are collected by pushing (Push) a third kind of state.
// (Not self-referential: the pinned tree overflows the stack when it compiles
// an unfolder for a recursive type - outside the claimed properties.)
type IntList struct {
	V   []int64
	Sub [][]int64
}

func (l IntList) Fold(v structform.ExtVisitor) error {
	if err := v.OnArrayStart(len(l.V)+len(l.Sub), structform.AnyType); err != nil {
		return err
	}
	for _, i := range l.V {
		if err := v.OnInt64(i); err != nil {
			return err
		}
	}
	for _, s := range l.Sub {
		if err := v.OnArrayStart(len(s), structform.AnyType); err != nil {
			return err
		}
		for _, i := range s {
			if err := v.OnInt64(i); err != nil {
				return err
			}
		}
		if err := v.OnArrayFinished(); err != nil {
			return err
		}
	}
	return v.OnArrayFinished()
}

type Lists struct {
	Name string
	A    IntList
	L    []IntList
	M    map[string]IntList
}

type intListStart struct {
	gotype.BaseUnfoldState
	to *IntList
}

func (s *intListStart) OnArrayStart(ctx gotype.UnfoldCtx, _ int, _ structform.BaseType) error {
	s.to.V, s.to.Sub = nil, nil
	ctx.Cont(&intListElems{to: s.to})
	return nil
}

func (s *intListStart) OnNil(ctx gotype.UnfoldCtx) error {
	ctx.Done()
	return nil
}

type intListElems struct {
	gotype.BaseUnfoldState
	to *IntList
}

func (s *intListElems) OnInt(ctx gotype.UnfoldCtx, i int64) error {
	s.to.V = append(s.to.V, i)
	return nil
}

func (s *intListElems) OnUint(ctx gotype.UnfoldCtx, u uint64) error {
	s.to.V = append(s.to.V, int64(u))
	return nil
}

func (s *intListElems) OnArrayStart(ctx gotype.UnfoldCtx, _ int, _ structform.BaseType) error {
	s.to.Sub = append(s.to.Sub, []int64{})
	ctx.Push(&intSubElems{to: &s.to.Sub[len(s.to.Sub)-1]})
	return nil
}

func (s *intListElems) OnArrayFinished(ctx gotype.UnfoldCtx) error {
	ctx.Done()
	return nil
}

type intSubElems struct {
	gotype.BaseUnfoldState
	to *[]int64
}

func (s *intSubElems) OnInt(ctx gotype.UnfoldCtx, i int64) error {
	*s.to = append(*s.to, i)
	return nil
}

func (s *intSubElems) OnUint(ctx gotype.UnfoldCtx, u uint64) error {
	*s.to = append(*s.to, int64(u))
	return nil
}

func (s *intSubElems) OnArrayFinished(ctx gotype.UnfoldCtx) error {
	ctx.Done()
	return nil
}

// IntListUnfolder registers the two-phase state unfolder for IntList.
func IntListUnfolder() gotype.UnfoldOption {
	return gotype.Unfolders(func(to *IntList) gotype.UnfoldState { return &intListStart{to: to} })
}

// NumUnfolderVariants is the number of user-unfolder configurations.
const NumUnfolderVariants = 4

// NumFolderVariants is the number of user-folder configurations of FolderOpts.
const NumFolderVariants = 4

// FolderOpts returns the options of user-folder configuration v
// (gotype.Folders): 0 none; 1 Inner as one string and Score as a string;
// 2 Inner as a three-element array (several events per value) and Simple as
// an object with other keys; 3 Score as a widened integer and Celsius as an
// object. Every folder forwards the visitor's errors unchanged.
func FolderOpts(v int) []gotype.FoldOption {
	switch v {
	case 1:
		return []gotype.FoldOption{gotype.Folders(
			func(in *Inner, vs structform.ExtVisitor) error {
				if in == nil {
					return vs.OnNil()
				}
				return vs.OnString(fmt.Sprintf("%d/%d/%s", in.X, in.Y, in.Z))
			},
			func(s *Score, vs structform.ExtVisitor) error {
				if s == nil {
					return vs.OnNil()
				}
				return vs.OnString(fmt.Sprintf("score:%d", int(*s)))
			})}
	case 2:
		return []gotype.FoldOption{gotype.Folders(
			func(in *Inner, vs structform.ExtVisitor) error {
				if in == nil {
					return vs.OnNil()
				}
				if err := vs.OnArrayStart(3, structform.AnyType); err != nil {
					return err
				}
				if err := vs.OnInt8(in.X); err != nil {
					return err
				}
				if err := vs.OnUint16(in.Y); err != nil {
					return err
				}
				if err := vs.OnString(in.Z); err != nil {
					return err
				}
				return vs.OnArrayFinished()
			},
			func(in *Simple, vs structform.ExtVisitor) error {
				if in == nil {
					return vs.OnNil()
				}
				if err := vs.OnObjectStart(1, structform.AnyType); err != nil {
					return err
				}
				if err := vs.OnKey("simple.b"); err != nil {
					return err
				}
				if err := vs.OnString(in.B); err != nil {
					return err
				}
				return vs.OnObjectFinished()
			})}
	case 3:
		return []gotype.FoldOption{gotype.Folders(
			func(s *Score, vs structform.ExtVisitor) error {
				if s == nil {
					return vs.OnNil()
				}
				return vs.OnInt64(int64(*s) * 2)
			},
			func(p *PtrShaped, vs structform.ExtVisitor) error {
				if p == nil || p.P == nil {
					return vs.OnNil()
				}
				return vs.OnInt(*p.P)
			},
			func(p *PtrArr, vs structform.ExtVisitor) error {
				if p == nil || p[0] == nil {
					return vs.OnNil()
				}
				return vs.OnInt(*p[0] + 1000000)
			})}
	}
	return nil
}

// UnfolderOpts returns the options of user-unfolder configuration v for the
// type Score: 0 none; 1 processing unfolder with a temporary cell; 2 processing
// unfolder that re-uses the target as its cell and post-processes it;
// 3 stateful unfolder (UnfoldState).
func UnfolderOpts(v int) []gotype.UnfoldOption {
	if v == 0 {
		return nil
	}
	return append(scoreOpts(v), TreeUnfolder(), LabelUnfolder(), PrimUnfolders(), IntListUnfolder())
}

// LabelUnfolder registers a primitive user unfolder for Label that keeps the
// string it receives - as user code may: the string type promises immutability.
func LabelUnfolder() gotype.UnfoldOption {
	return gotype.Unfolders(func(to *Label, s string) error {
		to.S = s
		return nil
	})
}

// Fold reports a Label as its bare string (the counterpart of LabelUnfolder).
func (l Label) Fold(v structform.ExtVisitor) error { return v.OnString(l.S) }

func scoreOpts(v int) []gotype.UnfoldOption {
	switch v {
	case 1:
		cell := new(int)
		return []gotype.UnfoldOption{gotype.Unfolders(func(_ *Score) (interface{}, func(*Score, interface{}) error) {
			return cell, func(to *Score, _ interface{}) error {
				*to = Score(*cell + 7)
				return nil
			}
		})}
	case 2:
		return []gotype.UnfoldOption{gotype.Unfolders(func(to *Score) (interface{}, func(*Score, interface{}) error) {
			return to, func(to *Score, _ interface{}) error {
				*to += 11
				return nil
			}
		})}
	case 3:
		return []gotype.UnfoldOption{gotype.Unfolders(func(to *Score) gotype.UnfoldState { return &scoreState{to: to} })}
	}
	return nil
}

// MyStr and MyStr2 are two different named string types used as map keys.
type MyStr string
type MyStr2 string

// TwoMaps holds two reflection-unfolded maps with different named key types.
type TwoMaps struct {
	A map[MyStr]Simple
	B map[MyStr2][]int
	C map[string]Inner
}

// Wrapper-of-wrapper structs: a struct whose only field is a struct whose only
// field is a pointer / map / slice / string ("pointer-shaped" all the way down).
type WrapPtr1 struct{ P *int64 }
type WrapPtr struct{ In WrapPtr1 }
type WrapMap1 struct{ M map[string]int }
type WrapMap struct{ In WrapMap1 }
type WrapStr1 struct{ S *string }
type WrapStr struct{ In WrapStr1 }
type Wrap3 struct{ W WrapMap }

// Inline2 inlines a struct that itself inlines a struct, behind other fields.
type InlineL2 struct {
	X int32
	Y string
}
type InlineL1 struct {
	A  string
	L2 InlineL2 `struct:",inline"`
	B  int
}
type Inline2 struct {
	Pad  int64
	Head string
	L1   InlineL1 `struct:",inline"`
	Tail string
	N    uint16
}

type NamedSlice []int
type NamedMap map[string]string

// TypeEntry is one Go type of the catalogue.
type TypeEntry struct {
	Name string
	// NewTarget allocates a zero value of the type between two sentinel blocks
	// inside one allocation and returns a pointer to it, a sentinel check and
	// an accessor for the current value.
	NewTarget func() (ptr interface{}, sentinelsIntact func() bool, value func() interface{})
	// Gen draws a value of the type (maps have at most one entry).
	Gen func(c *simkit.Choices) interface{}
	// Set stores a value of the type into a target obtained from NewTarget
	// (a target that is re-used: non-nil slices, maps, pointers).
	Set func(ptr interface{}, v interface{})
	// Supported is false for types the library documents as unsupported
	// targets (SetTarget must refuse them).
	Supported bool
	// HasStrings: the type can hold strings/keys (aliasing checks).
	HasStrings bool
	// Family groups types that contain each other (histories on one instance
	// are drawn from one family half of the time: caches keyed by type).
	Family string
	// FoldOnly: the library can fold values of the type but does not accept it
	// as an unfold target (inline maps, Folder implementations).
	FoldOnly bool
}

// PickType draws a catalogue type. forUnfold excludes fold-only types.
func PickType(c *simkit.Choices, forUnfold, needStrings, allowUnsupported bool) *TypeEntry {
	for i := 0; ; i++ {
		te := &Catalogue[c.N(len(Catalogue))]
		if i > 200 {
			return &Catalogue[1] // string: bounded under a replayed trace
		}
		if !te.Supported && !allowUnsupported {
			continue
		}
		if forUnfold && te.FoldOnly {
			continue
		}
		if needStrings && !te.HasStrings {
			continue
		}
		return te
	}
}

type guarded[T any] struct {
	pre  [64]uint64
	v    T
	post [64]uint64
}

const sentinel = 0x5afe5afe5afe5afe

func mk[T any](name string, hasStr bool, gen func(c *simkit.Choices) T) TypeEntry {
	return TypeEntry{Name: name, Supported: true, HasStrings: hasStr,
		NewTarget: func() (interface{}, func() bool, func() interface{}) {
			g := &guarded[T]{}
			for i := range g.pre {
				g.pre[i], g.post[i] = sentinel, sentinel
			}
			return &g.v, func() bool {
				for i := range g.pre {
					if g.pre[i] != sentinel || g.post[i] != sentinel {
						return false
					}
				}
				return true
			}, func() interface{} { return g.v }
		},
		Gen: func(c *simkit.Choices) interface{} { return gen(c) },
		Set: func(ptr interface{}, v interface{}) { *(ptr.(*T)) = v.(T) },
	}
}

func genStr(c *simkit.Choices) string { return GenText(c, 80) }

// genU64 draws a uint64; one in six lies above MaxInt64 (UBJSON carries those
// as high-precision decimals).
func genU64(c *simkit.Choices) uint64 {
	if c.N(6) == 0 {
		return GenUintBig(c).U
	}
	return uint64(genI(c)) >> 1
}
func genI(c *simkit.Choices) int64   { return GenInt(c).Int64() }
func genF(c *simkit.Choices) float64 { return math.Float64frombits(GenF64(c, false).F) }

func genSlice[T any](c *simkit.Choices, el func(*simkit.Choices) T) []T {
	if c.N(8) == 0 {
		return nil
	}
	n := c.Small(5)
	a := make([]T, n)
	for i := range a {
		a[i] = el(c)
	}
	return a
}

// genMap draws a map with at most one entry (map iteration order has no seam).
func genMap[T any](c *simkit.Choices, el func(*simkit.Choices) T) map[string]T {
	switch c.N(4) {
	case 0:
		return nil
	case 1:
		return map[string]T{}
	}
	if c.N(8) == 0 {
		// a key longer than the usual inline buffers and interning limits
		n := []int{65, 66, 70, 100, 125, 128, 129, 200, 257, 300}[c.N(10)]
		return map[string]T{strings.Repeat(string(rune('a'+c.N(26))), n) + GenKey(c, 4): el(c)}
	}
	return map[string]T{GenKey(c, 12): el(c)}
}

func genIfc(c *simkit.Choices, depth int) interface{} {
	switch c.N(9) {
	case 0:
		return nil
	case 1:
		return c.Bool()
	case 2:
		return genStr(c)
	case 3:
		return int(genI(c))
	case 4:
		return genF(c)
	case 5:
		return uint64(genI(c)) >> 1
	case 6:
		if depth < 2 {
			return genSlice(c, func(c *simkit.Choices) interface{} { return genIfc(c, depth+1) })
		}
		return int8(c.N(100))
	case 7:
		if depth < 2 {
			return genMap(c, func(c *simkit.Choices) interface{} { return genIfc(c, depth+1) })
		}
		return "x"
	default:
		return int64(genI(c))
	}
}

func genShape(c *simkit.Choices) Shape {
	switch c.N(4) {
	case 0:
		return nil
	case 1:
		return Sq{Side: float64(c.N(100)) / 4}
	}
	return &Circ{R: float64(c.N(100)) / 2, Label: genStr(c)}
}

func genIntList(c *simkit.Choices, depth int) IntList {
	var l IntList
	for i, n := 0, c.N(4); i < n; i++ {
		// (non-negative: OnInt(int) events reach a user state as OnUint in the
		// pinned tree, a value question outside the claimed properties)
		l.V = append(l.V, int64(c.N(1000)))
	}
	for i, n := 0, c.N(3); i < n && c.N(2) == 0; i++ {
		sub := []int64{}
		for j, k := 0, c.N(3); j < k; j++ {
			sub = append(sub, int64(c.N(1000)))
		}
		l.Sub = append(l.Sub, sub)
	}
	return l
}

func genInner(c *simkit.Choices) Inner {
	return Inner{X: int8(c.N(256)), Y: uint16(c.N(65536)), Z: genStr(c)}
}

func genSimple(c *simkit.Choices) Simple {
	return Simple{A: int(genI(c)), B: genStr(c), C: c.Bool(), D: genF(c), E: genSlice(c, genStr)}
}

func genTagged(c *simkit.Choices) Tagged {
	t := Tagged{Name: genStr(c), Skip: c.N(5), In: genInner(c), Ifc: genIfc(c, 1)}
	if c.Bool() {
		t.Opt = genStr(c)
	}
	if c.Bool() {
		n := int(genI(c))
		t.Num = &n
	}
	return t
}

func genNested(c *simkit.Choices) Nested {
	n := Nested{S: genSimple(c), L: genSlice(c, genSimple), M: genMap(c, genSimple), I: genInner(c)}
	if c.Bool() {
		s := genSimple(c)
		n.P = &s
	}
	if c.Bool() {
		i := int(genI(c))
		p := &i
		n.PP = &p
	}
	return n
}

func genStrs(c *simkit.Choices) Strs {
	return Strs{First: genStr(c), Second: genStr(c), Tags: genSlice(c, genStr), Attrs: genMap(c, genStr), Any: genIfc(c, 1)}
}

// Catalogue is the fixed list of Go types used by the gotype engines.
var Catalogue = []TypeEntry{
	mk("bool", false, func(c *simkit.Choices) bool { return c.Bool() }),
	mk("string", true, genStr),
	mk("int8", false, func(c *simkit.Choices) int8 { return int8(c.N(256)) }),
	mk("int16", false, func(c *simkit.Choices) int16 { return int16(genI(c)) }),
	mk("int32", false, func(c *simkit.Choices) int32 { return int32(genI(c)) }),
	mk("int64", false, func(c *simkit.Choices) int64 { return genI(c) }),
	mk("int", false, func(c *simkit.Choices) int { return int(genI(c)) }),
	mk("uint8", false, func(c *simkit.Choices) uint8 { return uint8(c.N(256)) }),
	mk("uint16", false, func(c *simkit.Choices) uint16 { return uint16(c.N(65536)) }),
	mk("uint32", false, func(c *simkit.Choices) uint32 { return uint32(genI(c)) }),
	mk("uint64", false, func(c *simkit.Choices) uint64 { return genU64(c) }),
	mk("uint", false, func(c *simkit.Choices) uint { return uint(genI(c)) >> 1 }),
	mk("float32", false, func(c *simkit.Choices) float32 { return math.Float32frombits(uint32(GenF32(c, false).F)) }),
	mk("float64", false, genF),
	mk("interface{}", true, func(c *simkit.Choices) interface{} { return genIfc(c, 0) }),
	mk("[]bool", false, func(c *simkit.Choices) []bool { return genSlice(c, func(c *simkit.Choices) bool { return c.Bool() }) }),
	mk("[]string", true, func(c *simkit.Choices) []string { return genSlice(c, genStr) }),
	mk("[]int", false, func(c *simkit.Choices) []int { return genSlice(c, func(c *simkit.Choices) int { return int(genI(c)) }) }),
	mk("[]int8", false, func(c *simkit.Choices) []int8 {
		return genSlice(c, func(c *simkit.Choices) int8 { return int8(c.N(256)) })
	}),
	mk("[]int64", false, func(c *simkit.Choices) []int64 { return genSlice(c, genI) }),
	mk("[]uint8", false, func(c *simkit.Choices) []uint8 {
		return genSlice(c, func(c *simkit.Choices) uint8 { return uint8(c.N(256)) })
	}),
	mk("[]uint16", false, func(c *simkit.Choices) []uint16 {
		return genSlice(c, func(c *simkit.Choices) uint16 { return uint16(c.N(65536)) })
	}),
	mk("[]uint64", false, func(c *simkit.Choices) []uint64 { return genSlice(c, genU64) }),
	mk("[]float32", false, func(c *simkit.Choices) []float32 {
		return genSlice(c, func(c *simkit.Choices) float32 { return math.Float32frombits(uint32(GenF32(c, false).F)) })
	}),
	mk("[]float64", false, func(c *simkit.Choices) []float64 { return genSlice(c, genF) }),
	mk("[]interface{}", true, func(c *simkit.Choices) []interface{} {
		return genSlice(c, func(c *simkit.Choices) interface{} { return genIfc(c, 1) })
	}),
	mk("map[string]string", true, func(c *simkit.Choices) map[string]string { return genMap(c, genStr) }),
	mk("map[string]int", true, func(c *simkit.Choices) map[string]int {
		return genMap(c, func(c *simkit.Choices) int { return int(genI(c)) })
	}),
	mk("map[string]bool", true, func(c *simkit.Choices) map[string]bool {
		return genMap(c, func(c *simkit.Choices) bool { return c.Bool() })
	}),
	mk("map[string]uint8", true, func(c *simkit.Choices) map[string]uint8 {
		return genMap(c, func(c *simkit.Choices) uint8 { return uint8(c.N(256)) })
	}),
	mk("[]int16", false, func(c *simkit.Choices) []int16 {
		return genSlice(c, func(c *simkit.Choices) int16 { return int16(c.N(65536)) })
	}),
	mk("[]int32", false, func(c *simkit.Choices) []int32 {
		return genSlice(c, func(c *simkit.Choices) int32 { return int32(genI(c)) })
	}),
	mk("[]uint32", false, func(c *simkit.Choices) []uint32 {
		return genSlice(c, func(c *simkit.Choices) uint32 { return uint32(genI(c)) })
	}),
	mk("[]uint", false, func(c *simkit.Choices) []uint {
		return genSlice(c, func(c *simkit.Choices) uint { return uint(genU64(c)) })
	}),
	mk("map[string]int8", true, func(c *simkit.Choices) map[string]int8 {
		return genMap(c, func(c *simkit.Choices) int8 { return int8(c.N(256)) })
	}),
	mk("map[string]int16", true, func(c *simkit.Choices) map[string]int16 {
		return genMap(c, func(c *simkit.Choices) int16 { return int16(c.N(65536)) })
	}),
	mk("map[string]int32", true, func(c *simkit.Choices) map[string]int32 {
		return genMap(c, func(c *simkit.Choices) int32 { return int32(genI(c)) })
	}),
	mk("map[string]int64", true, func(c *simkit.Choices) map[string]int64 { return genMap(c, genI) }),
	mk("map[string]uint", true, func(c *simkit.Choices) map[string]uint {
		return genMap(c, func(c *simkit.Choices) uint { return uint(genU64(c)) })
	}),
	mk("map[string]uint16", true, func(c *simkit.Choices) map[string]uint16 {
		return genMap(c, func(c *simkit.Choices) uint16 { return uint16(c.N(65536)) })
	}),
	mk("map[string]uint32", true, func(c *simkit.Choices) map[string]uint32 {
		return genMap(c, func(c *simkit.Choices) uint32 { return uint32(genI(c)) })
	}),
	mk("map[string]uint64", true, func(c *simkit.Choices) map[string]uint64 { return genMap(c, genU64) }),
	mk("map[string]float32", true, func(c *simkit.Choices) map[string]float32 {
		return genMap(c, func(c *simkit.Choices) float32 { return math.Float32frombits(uint32(GenF32(c, false).F)) })
	}),
	foldOnly(mk("map[string]Shape", true, func(c *simkit.Choices) map[string]Shape { return genMap(c, genShape) })),
	foldOnly(mk("[]Shape", true, func(c *simkit.Choices) []Shape { return genSlice(c, genShape) })),
	foldOnly(mk("Shapes", true, func(c *simkit.Choices) Shapes {
		return Shapes{One: genShape(c), M: genMap(c, genShape), L: genSlice(c, genShape), N: ShapeMap(genMap(c, genShape)),
			In: map[string]Shape{"in." + GenKey(c, 6): genShape(c)}}
	})),
	mk("LongNames", true, func(c *simkit.Choices) LongNames {
		// (omitempty omits empty strings, slices and nil pointers - not zero numbers)
		var l LongNames
		short := func() string { return string(rune('a'+c.N(26))) + string(rune('a'+c.N(26))) }
		if c.Bool() {
			l.One = short()
		}
		if c.Bool() {
			l.Two = short()
		}
		if c.N(3) == 0 {
			n := c.N(10)
			l.Six = &n
		}
		if c.N(3) == 0 {
			l.Ten = []int{c.N(10)}
		}
		if c.N(3) == 0 {
			l.Short = short()
		}
		if c.N(3) == 0 {
			l.Other = short()
		}
		return l
	}),
	foldOnly(mk("OmitTwins", false, func(c *simkit.Choices) OmitIfc {
		// look-alike types in omitempty interface fields, in either order
		o := OmitIfc{ID: c.N(100)}
		switch c.N(4) {
		case 0:
			o.V, o.W = twinA(), twinB(1+c.N(9))
		case 1:
			o.V, o.W = twinB(1+c.N(9)), twinA()
		case 2:
			o.V = twinA()
		default:
			o.V = twinB(1 + c.N(9))
		}
		return o
	})),
	foldOnly(mk("OmitIfc", true, func(c *simkit.Choices) OmitIfc {
		dyn := func() interface{} {
			x := c.N(2) * (1 + c.N(9))
			switch c.N(9) {
			case 0:
				return nil
			case 1:
				return ZeroS{X: x}
			case 2:
				return PlainS{X: x}
			case 3:
				return ZeroI(x)
			case 4:
				return PlainI(x)
			case 5:
				return &ZeroS{X: x}
			case 6:
				return x
			case 7:
				return genStr(c)
			}
			return genIfc(c, 1)
		}
		return OmitIfc{ID: c.N(100), V: dyn(), W: dyn(), Z: ZeroS{X: c.N(2)}, P: PlainS{X: c.N(2)}}
	})),
	mk("[]Empty", false, func(c *simkit.Choices) []Empty { return genSlice(c, func(*simkit.Choices) Empty { return Empty{} }) }),
	mk("map[string]Empty", true, func(c *simkit.Choices) map[string]Empty {
		return genMap(c, func(*simkit.Choices) Empty { return Empty{} })
	}),
	mk("Empties", true, func(c *simkit.Choices) Empties {
		e := Empties{L: genSlice(c, func(*simkit.Choices) Empty { return Empty{} }), M: genMap(c, func(*simkit.Choices) Empty { return Empty{} }), N: c.N(100)}
		if c.Bool() {
			e.P = &Empty{}
		}
		return e
	}),
	foldOnly(mk("[3]int", false, func(c *simkit.Choices) [3]int { return [3]int{int(genI(c)), c.N(10), -c.N(10)} })),
	foldOnly(mk("ArrHolder", true, func(c *simkit.Choices) ArrHolder {
		return ArrHolder{A: [2]string{genStr(c), genStr(c)}, B: [3]Inner{genInner(c), {}, genInner(c)},
			C: Triple{int16(c.N(65536)), 1, -1}, E: genSlice(c, func(c *simkit.Choices) [2]uint8 { return [2]uint8{uint8(c.N(256)), 7} })}
	})),
	mk("Embeds", true, func(c *simkit.Choices) Embeds {
		e := Embeds{Inner: genInner(c), N: c.N(1000)}
		if c.Bool() {
			s := genSimple(c)
			e.Simple = &s
		}
		return e
	}),
	mk("SmallPtrs", false, func(c *simkit.Choices) SmallPtrs {
		var p SmallPtrs
		if c.Bool() {
			a, b, cc := int8(c.N(256)), uint16(c.N(65536)), c.Bool()
			p.A, p.B, p.C = &a, &b, &cc
		}
		if c.Bool() {
			d, e, f := float32(c.N(1000))/8, uint8(c.N(256)), int32(genI(c))
			p.D, p.E, p.F = &d, &e, &f
		}
		return p
	}),
	mk("map[string]float64", true, func(c *simkit.Choices) map[string]float64 { return genMap(c, genF) }),
	mk("map[string]interface{}", true, func(c *simkit.Choices) map[string]interface{} {
		return genMap(c, func(c *simkit.Choices) interface{} { return genIfc(c, 1) })
	}),
	mk("Inner", true, genInner),
	mk("Simple", true, genSimple),
	mk("Tagged", true, genTagged),
	mk("Nested", true, genNested),
	mk("Strs", true, genStrs),
	mk("NamedSlice", false, func(c *simkit.Choices) NamedSlice {
		return NamedSlice(genSlice(c, func(c *simkit.Choices) int { return int(genI(c)) }))
	}),
	mk("NamedMap", true, func(c *simkit.Choices) NamedMap { return NamedMap(genMap(c, genStr)) }),
	mk("[]Simple", true, func(c *simkit.Choices) []Simple { return genSlice(c, genSimple) }),
	mk("map[string]Simple", true, func(c *simkit.Choices) map[string]Simple { return genMap(c, genSimple) }),
	mk("map[string][]int", true, func(c *simkit.Choices) map[string][]int {
		return genMap(c, func(c *simkit.Choices) []int { return genSlice(c, func(c *simkit.Choices) int { return int(genI(c)) }) })
	}),
	mk("[][]string", true, func(c *simkit.Choices) [][]string {
		return genSlice(c, func(c *simkit.Choices) []string { return genSlice(c, genStr) })
	}),
	mk("[]map[string]interface{}", true, func(c *simkit.Choices) []map[string]interface{} {
		return genSlice(c, func(c *simkit.Choices) map[string]interface{} {
			return genMap(c, func(c *simkit.Choices) interface{} { return genIfc(c, 1) })
		})
	}),
	mk("map[string]map[string]string", true, func(c *simkit.Choices) map[string]map[string]string {
		return genMap(c, func(c *simkit.Choices) map[string]string { return genMap(c, genStr) })
	}),
	mk("*Simple", true, func(c *simkit.Choices) *Simple {
		if c.N(4) == 0 {
			return nil
		}
		s := genSimple(c)
		return &s
	}),
	mk("[]*Inner", true, func(c *simkit.Choices) []*Inner {
		return genSlice(c, func(c *simkit.Choices) *Inner { i := genInner(c); return &i })
	}),
	foldOnly(mk("InlineMap", true, func(c *simkit.Choices) InlineMap {
		return InlineMap{A: genStr(c), M: genMap(c, func(c *simkit.Choices) interface{} { return genIfc(c, 1) }), Z: c.N(100)}
	})),
	foldOnly(mk("InlineTyped", true, func(c *simkit.Choices) InlineTyped {
		return InlineTyped{S: genMap(c, genStr), N: genMap(c, func(c *simkit.Choices) int { return c.N(100) }), B: genMap(c, func(c *simkit.Choices) bool { return c.Bool() })}
	})),
	foldOnly(mk("InlineIfc", true, func(c *simkit.Choices) InlineIfc {
		v := InlineIfc{A: genStr(c), Z: c.N(100)}
		switch c.N(3) {
		case 0:
			v.I = map[string]interface{}{GenKey(c, 8): genIfc(c, 1)}
		case 1:
			v.I = genInner(c)
		default:
			v.I = map[string]string{GenKey(c, 8): genStr(c)}
		}
		return v
	})),
	foldOnly(mk("InlinePtrA", true, func(c *simkit.Choices) InlinePtrA {
		i := genInner(c)
		return InlinePtrA{ID: c.N(100), Inner: &i}
	})),
	foldOnly(mk("InlinePtrB", true, func(c *simkit.Choices) InlinePtrB {
		i := genInner(c)
		return InlinePtrB{Name: genStr(c), Inner: &i, M: map[string]interface{}{"m." + GenKey(c, 8): genIfc(c, 1)}}
	})),
	foldOnly(mk("InlineValB", true, func(c *simkit.Choices) InlineValB {
		v := InlineValB{Inner: genInner(c), Tail: genStr(c)}
		switch c.N(3) {
		case 0:
			v.I = map[string]interface{}{"i." + GenKey(c, 8): genIfc(c, 1)}
		case 1:
			v.I = map[string]string{"i." + GenKey(c, 8): genStr(c)}
		default:
			v.I = map[string]int{"i." + GenKey(c, 8): c.N(100)}
		}
		return v
	})),
	foldOnly(mk("InlineFolder", true, func(c *simkit.Choices) InlineFolder {
		return InlineFolder{A: genStr(c), T: Labels(genMap(c, genStr)), Z: genSlice(c, genStr)}
	})),
	mk("Holder", true, func(c *simkit.Choices) Holder {
		h := Holder{A: genInner(c), L: genSlice(c, genInner), M: genMap(c, genInner)}
		if c.Bool() {
			i := genInner(c)
			h.P = &i
		}
		return h
	}),
	mk("HolderInline", true, func(c *simkit.Choices) HolderInline {
		sub := func(c *simkit.Choices) HolderSub { return HolderSub{A: genInner(c), L: genSlice(c, genInner)} }
		h := HolderInline{X: genStr(c), Sub: sub(c), Deep: sub(c), LS: genSlice(c, sub), MS: genMap(c, sub)}
		if c.Bool() {
			v := sub(c)
			h.PS = &v
		}
		return h
	}),
	mk("map[MyStr]Simple", true, func(c *simkit.Choices) map[MyStr]Simple {
		m := genMap(c, genSimple)
		if m == nil {
			return nil
		}
		out := map[MyStr]Simple{}
		for k, v := range m {
			out[MyStr(k)] = v
		}
		return out
	}),
	mk("map[MyStr]string", true, func(c *simkit.Choices) map[MyStr]string {
		m := genMap(c, genStr)
		if m == nil {
			return nil
		}
		out := map[MyStr]string{}
		for k, v := range m {
			out[MyStr(k)] = v
		}
		return out
	}),
	mk("PackedU8", false, func(c *simkit.Choices) PackedU8 {
		return PackedU8{uint8(c.N(256)), uint8(c.N(256)), uint8(c.N(256)), uint8(c.N(256)), uint8(c.N(256)), uint8(c.N(256)), uint8(c.N(256)), uint8(1 + c.N(255))}
	}),
	mk("PackedI8", false, func(c *simkit.Choices) PackedI8 {
		return PackedI8{int8(c.N(256)), int8(c.N(256)), int8(c.N(256)), int8(c.N(256)), int8(c.N(256)), int8(c.N(256)), int8(c.N(256)), int8(1 + c.N(100))}
	}),
	mk("PackedBool", false, func(c *simkit.Choices) PackedBool {
		return PackedBool{c.Bool(), c.Bool(), c.Bool(), c.Bool(), c.Bool(), c.Bool(), c.Bool(), true}
	}),
	mk("PackedU16", false, func(c *simkit.Choices) PackedU16 {
		return PackedU16{uint16(c.N(65536)), uint16(c.N(65536)), uint16(c.N(65536)), uint16(1 + c.N(65535))}
	}),
	mk("PackedI16", false, func(c *simkit.Choices) PackedI16 {
		return PackedI16{int16(c.N(65536)), int16(c.N(65536)), int16(c.N(65536)), int16(1 + c.N(30000))}
	}),
	mk("PackedU32", false, func(c *simkit.Choices) PackedU32 { return PackedU32{uint32(genI(c)), uint32(1 + c.N(1000))} }),
	mk("PackedI32", false, func(c *simkit.Choices) PackedI32 { return PackedI32{int32(genI(c)), int32(1 + c.N(1000))} }),
	mk("PackedF32", false, func(c *simkit.Choices) PackedF32 { return PackedF32{float32(c.N(1000)) / 8, float32(1+c.N(1000)) / 4} }),
	mk("PackedMix", false, func(c *simkit.Choices) PackedMix {
		return PackedMix{uint16(c.N(65536)), uint16(c.N(65536)), uint8(c.N(256)), int8(c.N(256)), uint16(c.N(65536)), uint32(genI(c)), int16(c.N(65536)), uint16(1 + c.N(65535))}
	}),
	mk("Score", false, func(c *simkit.Choices) Score { return Score(c.N(1000)) }),
	mk("[]Score", false, func(c *simkit.Choices) []Score {
		return genSlice(c, func(c *simkit.Choices) Score { return Score(c.N(1000)) })
	}),
	mk("map[string]Score", true, func(c *simkit.Choices) map[string]Score {
		return genMap(c, func(c *simkit.Choices) Score { return Score(c.N(1000)) })
	}),
	mk("Scored", true, func(c *simkit.Choices) Scored {
		sc := Scored{Name: genStr(c), S: Score(c.N(1000)), L: genSlice(c, func(c *simkit.Choices) Score { return Score(c.N(100)) }),
			M: genMap(c, func(c *simkit.Choices) Score { return Score(c.N(100)) })}
		if c.Bool() {
			p := Score(c.N(50))
			sc.P = &p
		}
		return sc
	}),
	mk("NamedFields", true, func(c *simkit.Choices) NamedFields {
		nf := NamedFields{IDs: NamedSlice(genSlice(c, func(c *simkit.Choices) int { return c.N(100) })), Labels: NamedMap(genMap(c, genStr)),
			LL: genSlice(c, func(c *simkit.Choices) NamedSlice {
				return NamedSlice(genSlice(c, func(c *simkit.Choices) int { return c.N(9) }))
			})}
		if c.Bool() {
			p := NamedSlice{1, 2, c.N(5)}
			nf.P = &p
		}
		return nf
	}),
	mk("[]NamedSlice", false, func(c *simkit.Choices) []NamedSlice {
		return genSlice(c, func(c *simkit.Choices) NamedSlice {
			return NamedSlice(genSlice(c, func(c *simkit.Choices) int { return c.N(9) }))
		})
	}),
	mk("WrapPtr", true, func(c *simkit.Choices) WrapPtr {
		if c.N(4) == 0 {
			return WrapPtr{}
		}
		n := int64(c.N(5)) - 1
		return WrapPtr{WrapPtr1{&n}}
	}),
	mk("WrapMap", true, func(c *simkit.Choices) WrapMap {
		return WrapMap{WrapMap1{genMap(c, func(c *simkit.Choices) int { return c.N(3) })}}
	}),
	mk("WrapStr", true, func(c *simkit.Choices) WrapStr {
		if c.N(4) == 0 {
			return WrapStr{}
		}
		s := genStr(c)
		return WrapStr{WrapStr1{&s}}
	}),
	mk("Wrap3", true, func(c *simkit.Choices) Wrap3 {
		return Wrap3{WrapMap{WrapMap1{genMap(c, func(c *simkit.Choices) int { return c.N(3) })}}}
	}),
	mk("[]WrapPtr", true, func(c *simkit.Choices) []WrapPtr {
		return genSlice(c, func(c *simkit.Choices) WrapPtr { n := int64(c.N(3)); return WrapPtr{WrapPtr1{&n}} })
	}),
	mk("map[string]WrapStr", true, func(c *simkit.Choices) map[string]WrapStr {
		return genMap(c, func(c *simkit.Choices) WrapStr { s := genStr(c); return WrapStr{WrapStr1{&s}} })
	}),
	mk("Inline2", true, func(c *simkit.Choices) Inline2 {
		return Inline2{Pad: genI(c), Head: genStr(c), L1: InlineL1{A: genStr(c), L2: InlineL2{X: int32(c.N(1000)), Y: genStr(c)}, B: c.N(100)}, Tail: genStr(c), N: uint16(c.N(65536))}
	}),
	mk("TwoMaps", true, func(c *simkit.Choices) TwoMaps {
		t := TwoMaps{}
		if c.Bool() {
			t.A = map[MyStr]Simple{MyStr(GenKey(c, 8)): genSimple(c)}
		}
		if c.Bool() {
			t.B = map[MyStr2][]int{MyStr2(GenKey(c, 8)): {1, c.N(9)}}
		}
		if c.Bool() {
			t.C = map[string]Inner{GenKey(c, 8): genInner(c)}
		}
		return t
	}),
	mk("OrderedKV", true, genOrderedKV),
	mk("WithKV", true, func(c *simkit.Choices) WithKV {
		return WithKV{Name: genStr(c), KV: genOrderedKV(c), List: genSlice(c, genOrderedKV)}
	}),
	mk("Wide", true, func(c *simkit.Choices) Wide {
		return Wide{A: genStr(c), D: genStr(c), H: genStr(c), N1: genI(c), N4: genI(c), Mid: genInner(c), L1: genSlice(c, genStr),
			M1: genMap(c, genStr), Last: genSimple(c), Tail: genInner(c)}
	}),
	mk("[]Wide", true, func(c *simkit.Choices) []Wide {
		return genSlice(c, func(c *simkit.Choices) Wide { return Wide{B: genStr(c), Mid: genInner(c), Last: genSimple(c)} })
	}),
	mk("OmitAll", true, func(c *simkit.Choices) OmitAll {
		o := OmitAll{B: c.Bool(), F: float32(c.N(100)) / 4}
		if c.Bool() {
			o.S = genStr(c)
		}
		if c.Bool() {
			o.L = genSlice(c, func(c *simkit.Choices) int { return c.N(100) })
		}
		if c.Bool() {
			o.M = genMap(c, genStr)
		}
		if c.Bool() {
			i := genInner(c)
			o.P = &i
		}
		if c.Bool() {
			o.I = genIfc(c, 1)
		}
		if c.Bool() {
			o.E = genSlice(c, genStr)
		}
		return o
	}),
	mk("Ptrs", true, func(c *simkit.Choices) Ptrs {
		var p Ptrs
		if c.Bool() {
			s := genStr(c)
			p.PS = &s
		}
		if c.Bool() {
			i := genI(c)
			p.PI = &i
		}
		if c.Bool() {
			s := genStr(c)
			ps := &s
			p.PP = &ps
		}
		if c.Bool() {
			l := genSlice(c, genStr)
			p.PL = &l
		}
		if c.Bool() {
			m := genMap(c, func(c *simkit.Choices) int { return c.N(100) })
			p.PM = &m
		}
		if c.Bool() {
			i := genInner(c)
			p.PN = &i
		}
		return p
	}),
	// no self-referential type: folding one overflows the stack while compiling
	// the folder (a defect of the unclaimed property C11; fatal, not recoverable)
	foldOnly(mk("WithFolder", true, func(c *simkit.Choices) WithFolder {
		return WithFolder{Name: genStr(c), T: Celsius(c.N(100)), TS: genSlice(c, func(c *simkit.Choices) Celsius { return Celsius(c.N(50)) })}
	})),
	unsupported(mk("map[int]string", true, func(c *simkit.Choices) map[int]string { return nil })),
	unsupported(mk("IfaceField", true, func(c *simkit.Choices) IfaceField { return IfaceField{A: genStr(c), Z: genStr(c)} })),
	unsupported(mk("HasIface", true, func(c *simkit.Choices) HasIface { return HasIface{N: genStr(c)} })),
	unsupported(mk("[]Namer", true, func(c *simkit.Choices) []Namer { return nil })),
	unsupported(mk("map[string]Namer", true, func(c *simkit.Choices) map[string]Namer { return nil })),
	unsupported(mk("BadField", true, func(c *simkit.Choices) BadField { return BadField{A: c.N(10), Z: genStr(c)} })),
	unsupported(mk("HasBad", true, func(c *simkit.Choices) HasBad { return HasBad{Name: genStr(c)} })),
	unsupported(mk("[]BadField", true, func(c *simkit.Choices) []BadField { return nil })),
	foldOnly(mk("Triple", false, func(c *simkit.Choices) Triple { return Triple{int16(c.N(65536)), 2, -3} })),
	foldOnly(mk("Pair", false, func(c *simkit.Choices) Pair { return Pair{int16(c.N(65536)), -2} })),
	foldOnly(mk("Quad", false, func(c *simkit.Choices) Quad { return Quad{int16(c.N(65536)), 2, 3, -4} })),
	foldOnly(mk("[]interface{}-of-named-arrays", false, func(c *simkit.Choices) []interface{} {
		pool := []interface{}{Triple{1, 2, 3}, Pair{4, 5}, Quad{6, 7, 8, 9}, [2]int16{1, 2}, NamedSlice{1}, map[string]interface{}{"p": Pair{1, 1}}}
		var out []interface{}
		for i, n := 0, 1+c.N(4); i < n; i++ {
			out = append(out, pool[c.N(len(pool))])
		}
		return out
	})),
	foldOnly(mk("PtrShaped", false, func(c *simkit.Choices) PtrShaped { n := c.N(1000); return PtrShaped{P: &n} })),
	foldOnly(mk("HasPtrShaped", true, func(c *simkit.Choices) HasPtrShaped {
		n, m := c.N(1000), c.N(1000)
		h := HasPtrShaped{Name: genStr(c), S: PtrShaped{P: &n}, L: []PtrShaped{{P: &m}, {}}, M: map[string]PtrShaped{"k": {P: &n}}}
		if c.Bool() {
			h.I = PtrShaped{P: &m}
		}
		return h
	})),
	foldOnly(mk("PtrArr", false, func(c *simkit.Choices) PtrArr { n := 1 + c.N(1000); return PtrArr{&n} })),
	foldOnly(mk("HasPtrArr", true, func(c *simkit.Choices) HasPtrArr {
		n, m := 1+c.N(1000), 1+c.N(1000)
		h := HasPtrArr{Name: genStr(c), S: PtrArr{&n}, L: []PtrArr{{&m}, {}}, M: map[string]PtrArr{"k": {&n}}}
		if c.Bool() {
			h.I = PtrArr{&m}
		}
		return h
	})),
	foldOnly(mk("Opts", false, func(c *simkit.Choices) Opts {
		o := Opts{A: OptInt{Set: c.Bool(), V: c.N(1000)}, B: OptInt{Set: c.Bool(), V: c.N(1000)}, N: c.N(10)}
		if c.Bool() {
			o.P = &OptInt{Set: c.Bool(), V: c.N(1000)}
		}
		return o
	})),
	foldOnly(mk("[]Opts", false, func(c *simkit.Choices) []Opts {
		return genSlice(c, func(c *simkit.Choices) Opts {
			return Opts{A: OptInt{Set: c.Bool(), V: c.N(1000)}, B: OptInt{Set: true, V: c.N(1000)}}
		})
	})),
	mk("Prims", false, func(c *simkit.Choices) Prims {
		i := genI(c)
		p := Prims{Bool: PBool{V: c.Bool()}, Int: PInt{V: int(i)}, Int8: PInt8{V: int8(i)}, Int16: PInt16{V: int16(i)}, Int32: PInt32{V: int32(i)}, Int64: PInt64{V: i},
			Uint: PUint{V: uint(genU64(c))}, Uint8: PUint8{V: uint8(i)}, Uint16: PUint16{V: uint16(i)}, Uint32: PUint32{V: uint32(i)}, Uint64: PUint64{V: genU64(c)},
			Float32: PFloat32{V: float32(c.N(1000)) / 8}, Float64: PFloat64{V: genF(c)}}
		// (never nil: the library calls the value-receiver Fold through the
		// pointer, which panics for nil - a fold-side question outside the
		// claimed properties, kept out of the catalogue)
		p.PI = &PInt16{V: int16(c.N(65536))}
		p.LU = genSlice(c, func(c *simkit.Choices) PUint8 { return PUint8{V: uint8(c.N(256))} })
		p.MF = genMap(c, func(c *simkit.Choices) PFloat32 { return PFloat32{V: float32(c.N(100)) / 4} })
		return p
	}),
	mk("PInt16", false, func(c *simkit.Choices) PInt16 { return PInt16{V: int16(c.N(65536))} }),
	mk("[]PUint32", false, func(c *simkit.Choices) []PUint32 {
		return genSlice(c, func(c *simkit.Choices) PUint32 { return PUint32{V: uint32(genI(c))} })
	}),
	mk("Colls", true, func(c *simkit.Choices) Colls {
		var v Colls
		switch c.N(5) {
		case 0:
			v.LBool = genSlice(c, func(c *simkit.Choices) bool { return c.Bool() })
			v.MBool = genMap(c, func(c *simkit.Choices) bool { return c.Bool() })
			v.LStr = genSlice(c, func(c *simkit.Choices) string { return genStr(c) })
			v.MStr = genMap(c, func(c *simkit.Choices) string { return genStr(c) })
			v.LInt = genSlice(c, func(c *simkit.Choices) int { return int(genI(c)) })
			v.MInt = genMap(c, func(c *simkit.Choices) int { return int(genI(c)) })
		case 1:
			v.LI8 = genSlice(c, func(c *simkit.Choices) int8 { return int8(c.N(256)) })
			v.MI8 = genMap(c, func(c *simkit.Choices) int8 { return int8(c.N(256)) })
			v.LI16 = genSlice(c, func(c *simkit.Choices) int16 { return int16(c.N(65536)) })
			v.MI16 = genMap(c, func(c *simkit.Choices) int16 { return int16(c.N(65536)) })
			v.LI32 = genSlice(c, func(c *simkit.Choices) int32 { return int32(genI(c)) })
			v.MI32 = genMap(c, func(c *simkit.Choices) int32 { return int32(genI(c)) })
		case 2:
			v.LI64 = genSlice(c, func(c *simkit.Choices) int64 { return genI(c) })
			v.MI64 = genMap(c, func(c *simkit.Choices) int64 { return genI(c) })
			v.LUint = genSlice(c, func(c *simkit.Choices) uint { return uint(genU64(c)) })
			v.MUint = genMap(c, func(c *simkit.Choices) uint { return uint(genU64(c)) })
			v.LU8 = genSlice(c, func(c *simkit.Choices) uint8 { return uint8(c.N(256)) })
			v.MU8 = genMap(c, func(c *simkit.Choices) uint8 { return uint8(c.N(256)) })
		case 3:
			v.LU16 = genSlice(c, func(c *simkit.Choices) uint16 { return uint16(c.N(65536)) })
			v.MU16 = genMap(c, func(c *simkit.Choices) uint16 { return uint16(c.N(65536)) })
			v.LU32 = genSlice(c, func(c *simkit.Choices) uint32 { return uint32(genI(c)) })
			v.MU32 = genMap(c, func(c *simkit.Choices) uint32 { return uint32(genI(c)) })
			v.LU64 = genSlice(c, func(c *simkit.Choices) uint64 { return genU64(c) })
			v.MU64 = genMap(c, func(c *simkit.Choices) uint64 { return genU64(c) })
		case 4:
			v.LF32 = genSlice(c, func(c *simkit.Choices) float32 { return float32(c.N(1000)) / 8 })
			v.MF32 = genMap(c, func(c *simkit.Choices) float32 { return float32(c.N(1000)) / 8 })
			v.LF64 = genSlice(c, func(c *simkit.Choices) float64 { return genF(c) })
			v.MF64 = genMap(c, func(c *simkit.Choices) float64 { return genF(c) })
		}
		return v
	}),
	mk("Nest2", true, func(c *simkit.Choices) Nest2 {
		var v Nest2
		switch c.N(5) {
		case 0:
			v.ABool = genSlice(c, func(c *simkit.Choices) []bool { return genSlice(c, func(c *simkit.Choices) bool { return c.Bool() }) })
			v.AStr = genSlice(c, func(c *simkit.Choices) []string {
				return genSlice(c, func(c *simkit.Choices) string { return genStr(c) })
			})
			v.AInt = genSlice(c, func(c *simkit.Choices) []int { return genSlice(c, func(c *simkit.Choices) int { return int(genI(c)) }) })
		case 1:
			v.AI8 = genSlice(c, func(c *simkit.Choices) []int8 {
				return genSlice(c, func(c *simkit.Choices) int8 { return int8(c.N(256)) })
			})
			v.AI16 = genSlice(c, func(c *simkit.Choices) []int16 {
				return genSlice(c, func(c *simkit.Choices) int16 { return int16(c.N(65536)) })
			})
			v.AI32 = genSlice(c, func(c *simkit.Choices) []int32 {
				return genSlice(c, func(c *simkit.Choices) int32 { return int32(genI(c)) })
			})
		case 2:
			v.AI64 = genSlice(c, func(c *simkit.Choices) []int64 { return genSlice(c, func(c *simkit.Choices) int64 { return genI(c) }) })
			v.AUint = genSlice(c, func(c *simkit.Choices) []uint {
				return genSlice(c, func(c *simkit.Choices) uint { return uint(genU64(c)) })
			})
			v.AU8 = genSlice(c, func(c *simkit.Choices) []uint8 {
				return genSlice(c, func(c *simkit.Choices) uint8 { return uint8(c.N(256)) })
			})
		case 3:
			v.AU16 = genSlice(c, func(c *simkit.Choices) []uint16 {
				return genSlice(c, func(c *simkit.Choices) uint16 { return uint16(c.N(65536)) })
			})
			v.AU32 = genSlice(c, func(c *simkit.Choices) []uint32 {
				return genSlice(c, func(c *simkit.Choices) uint32 { return uint32(genI(c)) })
			})
			v.AU64 = genSlice(c, func(c *simkit.Choices) []uint64 {
				return genSlice(c, func(c *simkit.Choices) uint64 { return genU64(c) })
			})
		case 4:
			v.AF32 = genSlice(c, func(c *simkit.Choices) []float32 {
				return genSlice(c, func(c *simkit.Choices) float32 { return float32(c.N(1000)) / 8 })
			})
			v.AF64 = genSlice(c, func(c *simkit.Choices) []float64 {
				return genSlice(c, func(c *simkit.Choices) float64 { return genF(c) })
			})
		}
		if c.N(3) == 0 {
			v.MS = genMap(c, func(c *simkit.Choices) []uint16 { return []uint16{uint16(c.N(65536))} })
			v.SM = []map[string]int8{{GenKey(c, 4): int8(c.N(256))}}
			v.MM = map[string]map[string]float32{GenKey(c, 4): {GenKey(c, 4): 1.5}}
		}
		return v
	}),
	mk("NamedPrims", true, func(c *simkit.Choices) NamedPrims {
		f := NF32(float32(c.N(100)) / 4)
		return NamedPrims{Bool: NBool(c.Bool()), Str: NStr(genStr(c)), Int: NInt(int(genI(c))), I8: NI8(int8(c.N(256))), I16: NI16(int16(c.N(65536))), I32: NI32(int32(genI(c))), I64: NI64(genI(c)), Uint: NUint(uint(genU64(c))), U8: NU8(uint8(c.N(256))), U16: NU16(uint16(c.N(65536))), U32: NU32(uint32(genI(c))), U64: NU64(genU64(c)), F32: NF32(float32(c.N(1000)) / 8), F64: NF64(genF(c)), L: []NI16{NI16(c.N(65536))}, M: map[string]NU32{GenKey(c, 4): NU32(c.N(100000))}, P: &f}
	}),
	mk("IntList", false, func(c *simkit.Choices) IntList { return genIntList(c, 0) }),
	mk("Lists", true, func(c *simkit.Choices) Lists {
		return Lists{Name: genStr(c), A: genIntList(c, 0), L: genSlice(c, func(c *simkit.Choices) IntList { return genIntList(c, 1) }),
			M: genMap(c, func(c *simkit.Choices) IntList { return genIntList(c, 1) })}
	}),
	foldOnly(mk("InlineNums", true, func(c *simkit.Choices) InlineNums {
		v := InlineNums{Name: genStr(c)}
		switch c.N(4) {
		case 0:
			v.U = map[string]uint{"u." + GenKey(c, 4): uint(c.N(1000))}
			v.U8 = map[string]uint8{"u8." + GenKey(c, 4): uint8(c.N(256))}
			v.U16 = map[string]uint16{"u16." + GenKey(c, 4): uint16(c.N(65536))}
		case 1:
			v.U32 = map[string]uint32{"u32." + GenKey(c, 4): uint32(genI(c))}
			v.U64 = map[string]uint64{"u64." + GenKey(c, 4): genU64(c)}
			v.I8 = map[string]int8{"i8." + GenKey(c, 4): int8(c.N(256))}
		case 2:
			v.I16 = map[string]int16{"i16." + GenKey(c, 4): int16(c.N(65536))}
			v.I32 = map[string]int32{"i32." + GenKey(c, 4): int32(genI(c))}
			v.I64 = map[string]int64{"i64." + GenKey(c, 4): genI(c)}
		case 3:
			v.F32 = map[string]float32{"f32." + GenKey(c, 4): float32(c.N(1000)) / 8}
			v.F64 = map[string]float64{"f64." + GenKey(c, 4): genF(c)}
		}
		return v
	})),
	// pointer elements of a type that expands itself (gotype.Expander on the pointer receiver)
	mk("[]*OrderedKV", true, func(c *simkit.Choices) []*OrderedKV {
		return genSlice(c, func(c *simkit.Choices) *OrderedKV { o := genOrderedKV(c); return &o })
	}),
	mk("map[string]*OrderedKV", true, func(c *simkit.Choices) map[string]*OrderedKV {
		return genMap(c, func(c *simkit.Choices) *OrderedKV { o := genOrderedKV(c); return &o })
	}),
	// pointer ELEMENTS of types that have user-defined unfolders
	mk("[]*Label", true, func(c *simkit.Choices) []*Label {
		return genSlice(c, func(c *simkit.Choices) *Label { return &Label{S: genStr(c)} })
	}),
	mk("map[string]*Label", true, func(c *simkit.Choices) map[string]*Label {
		return genMap(c, func(c *simkit.Choices) *Label { return &Label{S: genStr(c)} })
	}),
	mk("[]*Score", false, func(c *simkit.Choices) []*Score {
		return genSlice(c, func(c *simkit.Choices) *Score { s := Score(c.N(1000)); return &s })
	}),
	mk("[]*PInt16", false, func(c *simkit.Choices) []*PInt16 {
		return genSlice(c, func(c *simkit.Choices) *PInt16 { return &PInt16{V: int16(c.N(65536))} })
	}),
	mk("map[string]*IntList", false, func(c *simkit.Choices) map[string]*IntList {
		return genMap(c, func(c *simkit.Choices) *IntList { l := genIntList(c, 0); return &l })
	}),
	mk("Label", true, func(c *simkit.Choices) Label { return Label{S: genStr(c)} }),
	mk("Labeled", true, func(c *simkit.Choices) Labeled {
		l := Labeled{Name: genStr(c), L: Label{S: genStr(c)}, LL: genSlice(c, func(c *simkit.Choices) Label { return Label{S: genStr(c)} }),
			M: genMap(c, func(c *simkit.Choices) Label { return Label{S: genStr(c)} })}
		if c.Bool() {
			l.P = &Label{S: genStr(c)}
		}
		return l
	}),
}

// localRecordA and localRecordB declare two DISTINCT struct types that share
// package path and name ("record") but differ in fields and tags: anything in
// the library keyed by type name instead of reflect.Type confuses them.
func localRecordA() TypeEntry {
	type record struct {
		Host string `struct:"hostname"`
		Port int    `struct:"port,omitempty"`
		Note string `struct:"-"`
	}
	return mk("local-A.record", true, func(c *simkit.Choices) record {
		return record{Host: genStr(c), Port: c.N(3), Note: "n"}
	})
}

func localRecordB() TypeEntry {
	type record struct {
		Host  string   `struct:"h"`
		Port  int      `struct:"p"`
		Note  string   `struct:"note,omitempty"`
		Extra []string `struct:"extra"`
	}
	return mk("local-B.record", true, func(c *simkit.Choices) record {
		return record{Host: genStr(c), Port: c.N(3), Note: genStr(c), Extra: genSlice(c, genStr)}
	})
}

var families = map[string][]string{
	"wrap":   {"WrapPtr", "WrapMap", "WrapStr", "Wrap3", "[]WrapPtr", "map[string]WrapStr", "Ptrs"},
	"inner":  {"Inner", "Holder", "HolderInline", "Nested", "Tagged", "[]*Inner", "Wide", "[]Wide", "OmitAll", "Ptrs", "Inline2", "TwoMaps"},
	"named":  {"NamedSlice", "NamedMap", "NamedFields", "[]NamedSlice", "[]int", "map[string]string"},
	"score":  {"PtrShaped", "HasPtrShaped", "PtrArr", "HasPtrArr", "Score", "[]Score", "map[string]Score", "Scored", "int"},
	"packed": {"PackedU8", "PackedI8", "PackedBool", "PackedU16", "PackedI16", "PackedU32", "PackedI32", "PackedF32", "PackedMix"},
	"simple": {"Simple", "[]Simple", "map[string]Simple", "*Simple", "Nested", "map[MyStr]Simple", "Wide", "Embeds"},
	"colls":  {"Colls", "Nest2", "NamedPrims", "[]int16", "map[string]uint16", "[][]string"},
	"ints": {"[]int8", "[]int16", "[]int32", "[]int64", "[]uint8", "[]uint16", "[]uint32", "[]uint64", "[]uint", "[]int", "SmallPtrs", "[3]int", "ArrHolder",
		"map[string]int8", "map[string]int16", "map[string]int32", "map[string]int64", "map[string]uint", "map[string]uint8", "map[string]uint16", "map[string]uint32", "map[string]uint64", "map[string]float32", "map[string]float64", "[]float32", "[]float64"},
	"kv":     {"[]*OrderedKV", "map[string]*OrderedKV", "OrderedKV", "WithKV", "map[string]string", "Strs"},
	"arrays": {"Triple", "Pair", "Quad", "[]interface{}-of-named-arrays", "[3]int", "ArrHolder", "[]interface{}"},
	"bad":    {"BadField", "HasBad", "[]BadField", "Simple", "Inner", "IfaceField", "HasIface"},
	"label":  {"Label", "Labeled", "Strs", "Prims", "PInt16", "[]PUint32", "IntList", "Lists", "[]*Label", "map[string]*Label", "[]*Score", "[]*PInt16", "map[string]*IntList"},
	"omit":   {"Opts", "[]Opts", "OmitIfc", "OmitTwins", "OmitTwins", "OmitAll", "LongNames", "Tagged"},
	"empty":  {"[]Empty", "map[string]Empty", "Empties", "[]interface{}", "map[string]interface{}"},
	"shape":  {"map[string]Shape", "[]Shape", "Shapes", "map[string]interface{}", "[]interface{}"},
	"folder": {"WithFolder", "InlineFolder", "InlineIfc", "InlineMap", "InlineTyped", "map[string]interface{}"},
	"local":  {"local-A.record", "local-B.record"},
	"inline": {"InlineNums", "InlinePtrA", "InlinePtrB", "InlineValB", "InlineIfc", "InlineMap", "Inline2", "Inner", "[]*Inner"},
	"ifc":    {"interface{}", "[]interface{}", "map[string]interface{}", "[]map[string]interface{}", "Strs", "Tagged"},
}

var familyNames = []string{"colls", "wrap", "inline", "ints", "shape", "empty", "omit", "arrays", "bad", "label", "packed", "inner", "named", "score", "simple", "kv", "folder", "local", "ifc"}

// PickRelated draws n types; half of the time all from one family (types
// that contain each other), else independently.
func PickRelated(c *simkit.Choices, n int, forUnfold bool) []*TypeEntry {
	out := make([]*TypeEntry, 0, n)
	if c.Bool() {
		fam := families[familyNames[c.N(len(familyNames))]]
		for tries := 0; len(out) < n && tries < 8*n; tries++ {
			te := TypeByName(fam[c.N(len(fam))])
			if te == nil || !te.Supported || (forUnfold && te.FoldOnly) {
				continue
			}
			out = append(out, te)
		}
	}
	for len(out) < n {
		out = append(out, PickType(c, forUnfold, false, false))
	}
	return out
}

// inexactRoundTrip lists the supported unfold targets for which fold -> unfold
// is NOT the identity under DeepEqLoose on the pinned tree (dynamic types
// behind interface{} change width, omitted fields stay zero). For all others
// it is (measured: 6000 generated values per type), which gives an exact
// ground truth for complete matching documents.
var inexactRoundTrip = map[string]bool{"interface{}": true, "[]interface{}": true, "map[string]interface{}": true, "Tagged": true, "Strs": true,
	"[]map[string]interface{}": true, "OmitAll": true, "local-A.record": true, "Label": true, "Labeled": true, "Prims": true, "PInt16": true, "[]PUint32": true, "IntList": true, "Lists": true, "[]*Label": true, "map[string]*Label": true, "[]*PInt16": true, "map[string]*IntList": true, "[]*OrderedKV": true, "map[string]*OrderedKV": true}

// ExactRoundTrip reports whether unfolding the fold of a value of this type
// into a zero target must reproduce the value (nil and empty identified).
func (t *TypeEntry) ExactRoundTrip() bool {
	return t.Supported && !t.FoldOnly && !inexactRoundTrip[t.Name]
}

func init() {
	Catalogue = append(Catalogue, localRecordA(), localRecordB())
	for _, n := range familyNames {
		if len(families[n]) == 0 {
			panic("model: family without members: " + n)
		}
		for _, t := range families[n] {
			if TypeByName(t) == nil {
				panic("model: family " + n + " names an unknown type: " + t)
			}
		}
	}
}

func unsupported(t TypeEntry) TypeEntry { t.Supported = false; return t }
func foldOnly(t TypeEntry) TypeEntry    { t.FoldOnly = true; return t }

// TypeByName finds a catalogue entry.
func TypeByName(name string) *TypeEntry {
	for i := range Catalogue {
		if Catalogue[i].Name == name {
			return &Catalogue[i]
		}
	}
	return nil
}

// ---- deep copy / deep equality ---------------------------------------------

// DeepCopy copies a value so that it shares no memory with the original
// (strings are cloned byte-wise).
func DeepCopy(v interface{}) interface{} {
	if v == nil {
		return nil
	}
	return deepCopy(reflect.ValueOf(v)).Interface()
}

// Beat, if set, is called every few thousand values inside the deep copy /
// compare helpers: a heartbeat for the worker's watchdog while the harness
// itself walks a result of 10^5..10^6 values.
var Beat func()

var beatCount uint32

func beat() {
	if beatCount++; beatCount&0xfff == 0 && Beat != nil {
		Beat()
	}
}

func deepCopy(v reflect.Value) reflect.Value {
	beat()
	switch v.Kind() {
	case reflect.String:
		out := reflect.New(v.Type()).Elem()
		out.SetString(strings.Clone(v.String()))
		return out
	case reflect.Slice:
		if v.IsNil() {
			return reflect.Zero(v.Type())
		}
		out := reflect.MakeSlice(v.Type(), v.Len(), v.Len())
		for i := 0; i < v.Len(); i++ {
			out.Index(i).Set(deepCopy(v.Index(i)))
		}
		return out
	case reflect.Map:
		if v.IsNil() {
			return reflect.Zero(v.Type())
		}
		out := reflect.MakeMapWithSize(v.Type(), v.Len())
		it := v.MapRange()
		for it.Next() {
			out.SetMapIndex(deepCopy(it.Key()), deepCopy(it.Value()))
		}
		return out
	case reflect.Ptr:
		if v.IsNil() {
			return reflect.Zero(v.Type())
		}
		out := reflect.New(v.Type().Elem())
		out.Elem().Set(deepCopy(v.Elem()))
		return out
	case reflect.Interface:
		if v.IsNil() {
			return reflect.Zero(v.Type())
		}
		out := reflect.New(v.Type()).Elem()
		out.Set(deepCopy(v.Elem()))
		return out
	case reflect.Struct:
		out := reflect.New(v.Type()).Elem()
		for i := 0; i < v.NumField(); i++ {
			if out.Field(i).CanSet() {
				out.Field(i).Set(deepCopy(v.Field(i)))
			}
		}
		return out
	default:
		out := reflect.New(v.Type()).Elem()
		out.Set(v)
		return out
	}
}

// DeepEq is reflect.DeepEqual with floats compared by bit pattern (NaN equals
// itself), nil and empty slices/maps distinguished only if strict.
func DeepEq(a, b interface{}) bool {
	if a == nil || b == nil {
		return a == nil && b == nil
	}
	return deepEq(reflect.ValueOf(a), reflect.ValueOf(b))
}

func deepEq(a, b reflect.Value) bool {
	beat()
	if a.Type() != b.Type() {
		return false
	}
	switch a.Kind() {
	case reflect.Float32, reflect.Float64:
		return math.Float64bits(a.Float()) == math.Float64bits(b.Float())
	case reflect.String:
		return a.String() == b.String()
	case reflect.Slice:
		if a.IsNil() != b.IsNil() || a.Len() != b.Len() {
			return false
		}
		for i := 0; i < a.Len(); i++ {
			if !deepEq(a.Index(i), b.Index(i)) {
				return false
			}
		}
		return true
	case reflect.Map:
		if a.IsNil() != b.IsNil() || a.Len() != b.Len() {
			return false
		}
		it := a.MapRange()
		for it.Next() {
			bv := b.MapIndex(it.Key())
			if !bv.IsValid() || !deepEq(it.Value(), bv) {
				return false
			}
		}
		return true
	case reflect.Ptr, reflect.Interface:
		if a.IsNil() || b.IsNil() {
			return a.IsNil() == b.IsNil()
		}
		return deepEq(a.Elem(), b.Elem())
	case reflect.Struct:
		for i := 0; i < a.NumField(); i++ {
			if a.Type().Field(i).PkgPath != "" {
				continue // unexported
			}
			if !deepEq(a.Field(i), b.Field(i)) {
				return false
			}
		}
		return true
	case reflect.Bool:
		return a.Bool() == b.Bool()
	case reflect.Int, reflect.Int8, reflect.Int16, reflect.Int32, reflect.Int64:
		return a.Int() == b.Int()
	case reflect.Uint, reflect.Uint8, reflect.Uint16, reflect.Uint32, reflect.Uint64, reflect.Uintptr:
		return a.Uint() == b.Uint()
	}
	return reflect.DeepEqual(a.Interface(), b.Interface())
}

// DeepEqLoose is DeepEq with nil and empty slices/maps identified (the
// library documents that folding and unfolding do not distinguish them).
func DeepEqLoose(a, b interface{}) bool {
	if a == nil || b == nil {
		return a == nil && b == nil
	}
	return deepEqLoose(reflect.ValueOf(a), reflect.ValueOf(b))
}

// DeepEqLooseZero additionally identifies +0 and -0 (a float -0 travels
// through JSON as the integer-syntax literal "-0", which is the integer 0).
func DeepEqLooseZero(a, b interface{}) bool {
	signedZeroEq = true
	defer func() { signedZeroEq = false }()
	return DeepEqLoose(a, b)
}

var signedZeroEq bool

func deepEqLoose(a, b reflect.Value) bool {
	if a.Type() != b.Type() {
		return false
	}
	switch a.Kind() {
	case reflect.Slice:
		if a.Len() != b.Len() {
			return false
		}
		for i := 0; i < a.Len(); i++ {
			if !deepEqLoose(a.Index(i), b.Index(i)) {
				return false
			}
		}
		return true
	case reflect.Map:
		if a.Len() != b.Len() {
			return false
		}
		it := a.MapRange()
		for it.Next() {
			bv := b.MapIndex(it.Key())
			if !bv.IsValid() || !deepEqLoose(it.Value(), bv) {
				return false
			}
		}
		return true
	case reflect.Ptr, reflect.Interface:
		if a.IsNil() || b.IsNil() {
			return a.IsNil() == b.IsNil()
		}
		return deepEqLoose(a.Elem(), b.Elem())
	case reflect.Struct:
		for i := 0; i < a.NumField(); i++ {
			if a.Type().Field(i).PkgPath != "" {
				continue
			}
			if !deepEqLoose(a.Field(i), b.Field(i)) {
				return false
			}
		}
		return true
	case reflect.Float32, reflect.Float64:
		if signedZeroEq && a.Float() == 0 && b.Float() == 0 {
			return true
		}
	}
	return deepEq(a, b)
}

// Render prints a value deeply and without addresses (pointers are
// dereferenced), so that renderings are comparable across runs.
func Render(v interface{}) string {
	var sb strings.Builder
	if v == nil {
		return "nil"
	}
	render(&sb, reflect.ValueOf(v), 0)
	s := sb.String()
	if len(s) > 1200 {
		s = s[:1200] + "…"
	}
	return s
}

func render(sb *strings.Builder, v reflect.Value, depth int) {
	if depth > 12 || sb.Len() > 1400 {
		sb.WriteString("…")
		return
	}
	switch v.Kind() {
	case reflect.Invalid:
		sb.WriteString("nil")
	case reflect.Ptr:
		if v.IsNil() {
			sb.WriteString("nil")
			return
		}
		sb.WriteString("&")
		render(sb, v.Elem(), depth+1)
	case reflect.Interface:
		if v.IsNil() {
			sb.WriteString("nil")
			return
		}
		fmt.Fprintf(sb, "(%s)", v.Elem().Type())
		render(sb, v.Elem(), depth+1)
	case reflect.Struct:
		sb.WriteString(v.Type().Name() + "{")
		for i := 0; i < v.NumField(); i++ {
			if v.Type().Field(i).PkgPath != "" {
				continue
			}
			if i > 0 {
				sb.WriteString(" ")
			}
			sb.WriteString(v.Type().Field(i).Name + ":")
			render(sb, v.Field(i), depth+1)
		}
		sb.WriteString("}")
	case reflect.Slice:
		if v.IsNil() {
			sb.WriteString("nil[]")
			return
		}
		sb.WriteString("[")
		for i := 0; i < v.Len(); i++ {
			if i > 0 {
				sb.WriteString(" ")
			}
			render(sb, v.Index(i), depth+1)
		}
		sb.WriteString("]")
	case reflect.Map:
		if v.IsNil() {
			sb.WriteString("nil{}")
			return
		}
		keys := v.MapKeys()
		strs := make([]string, len(keys))
		for i, k := range keys {
			strs[i] = fmt.Sprintf("%q", fmt.Sprint(k.Interface()))
		}
		idx := make([]int, len(keys))
		for i := range idx {
			idx[i] = i
		}
		for i := 1; i < len(idx); i++ {
			for j := i; j > 0 && strs[idx[j-1]] > strs[idx[j]]; j-- {
				idx[j-1], idx[j] = idx[j], idx[j-1]
			}
		}
		sb.WriteString("{")
		for n, i := range idx {
			if n > 0 {
				sb.WriteString(" ")
			}
			sb.WriteString(strs[i] + ":")
			render(sb, v.MapIndex(keys[i]), depth+1)
		}
		sb.WriteString("}")
	case reflect.String:
		fmt.Fprintf(sb, "%q", v.String())
	case reflect.Float32, reflect.Float64:
		fmt.Fprintf(sb, "%v/%#x", v.Float(), math.Float64bits(v.Float()))
	default:
		fmt.Fprintf(sb, "%v", v.Interface())
	}
}
