// Package reuse decides C17: after any history of complete documents an
// instance behaves on the next document exactly like a new instance, and its
// nesting stacks are back at idle depth after every document.
package reuse

import (
	"encoding/hex"
	"fmt"
	"io"
	"reflect"
	"strconv"
	"strings"

	structform "github.com/elastic/go-structform"
	"github.com/elastic/go-structform/gotype"
	sfjson "github.com/elastic/go-structform/json"

	"verif/engines/common"
	"verif/model"
	"verif/simkit"
)

type Scenario struct {
	Kind        string   `json:"kind"`
	Format      string   `json:"format,omitempty"`
	History     []string `json:"history"`
	Cuts        [][]int  `json:"per_doc_cuts,omitempty"`
	Probe       string   `json:"probe"`
	BufSize     int      `json:"bufsize,omitempty"`
	Reads       []int    `json:"read_sizes,omitempty"`
	Types       []string `json:"go_types,omitempty"`
	UserFolders int      `json:"user_folders,omitempty"` // model.FolderOpts variant on the iterator
	Arena       bool     `json:"strings_are_views_into_one_reused_buffer,omitempty"`
	ManyTypes   int      `json:"distinct_generated_types_processed_first,omitempty"`
	Options     []int    `json:"json_options_per_history_document,omitempty"`
}

type Engine struct{}

type depthser interface{ VerifDepths() []int }
type idler interface{ VerifIdle() bool }

func (Engine) Run(c *simkit.Choices, x *simkit.Ctx) *simkit.Violation {
	switch c.N(6) {
	case 0:
		return encoders(c, x)
	case 1:
		return parsers(c, x)
	case 2:
		return decoders(c, x)
	case 3:
		return iterator(c, x)
	case 4:
		return unfolder(c, x)
	default:
		return parseMethod(c, x)
	}
}

func opsOpts(x *simkit.Ctx, f model.Format) model.OpsOpts {
	oo := model.OpsOpts{Extended: true, NonFinite: f != model.JSON, BigUint: true, Hints: true, MaxDepth: 3, Budget: 10, MaxStr: 80, DeepChains: true}
	if x.Thorough {
		oo.Budget, oo.MaxDepth, oo.MaxStr = 20, 6, 300
	}
	return oo
}

func zero(d []int) bool {
	for _, v := range d {
		if v != 0 {
			return false
		}
	}
	return true
}

// encoders: one long-lived encoder writes a history of documents, then a probe.
func encoders(c *simkit.Choices, x *simkit.Ctx) *simkit.Violation {
	st := x.Stats
	f := model.Formats[c.N(3)]
	cd := common.ByName(f)
	oo := opsOpts(x, f)
	nh := 1 + c.N(6)
	var hist [][]model.Op
	sc := &Scenario{Kind: "encoder", Format: string(f)}
	// sized containers whose length sits on a header-width boundary, arrays
	// and objects of the SAME announced length next to each other
	sized := func() []model.Op {
		n := []int{23, 24, 25, 255, 256, 257}[c.N(6)]
		var ops []model.Op
		for k, m := 0, 1+c.N(2); k <= m; k++ {
			if c.Bool() {
				ops = append(ops, model.Op{Ev: simkit.Ev{K: simkit.KArrStart, I: int64(n)}})
				for j := 0; j < n; j++ {
					ops = append(ops, model.Op{Ev: simkit.Ev{K: simkit.KInt64, I: int64(j)}})
				}
				ops = append(ops, model.Op{Ev: simkit.Ev{K: simkit.KArrEnd}})
			} else {
				ops = append(ops, model.Op{Ev: simkit.Ev{K: simkit.KObjStart, I: int64(n)}})
				for j := 0; j < n; j++ {
					ops = append(ops, model.Op{Ev: simkit.Ev{K: simkit.KKey, S: "k" + strconv.Itoa(j)}}, model.Op{Ev: simkit.Ev{K: simkit.KInt64, I: int64(j)}})
				}
				ops = append(ops, model.Op{Ev: simkit.Ev{K: simkit.KObjEnd}})
			}
		}
		return append(append([]model.Op{{Ev: simkit.Ev{K: simkit.KArrStart, I: -1}}}, ops...), model.Op{Ev: simkit.Ev{K: simkit.KArrEnd}})
	}
	useSized := c.N(8) == 0
	for i := 0; i < nh; i++ {
		ops := model.GenOps(c, oo)
		if useSized && c.Bool() {
			ops = sized()
		}
		hist = append(hist, ops)
		sc.History = append(sc.History, model.OpsString(ops, 40))
	}
	probe := model.GenOps(c, oo)
	if useSized {
		probe = sized()
	}
	sc.Probe = model.OpsString(probe, 40)
	simkit.SetCurrent(sc)
	st.Eval(1)
	st.Distinct(simkit.NewDigest().Str("enc" + string(f)).Str(fmt.Sprint(sc.History)).Str(sc.Probe).Sum())

	encode := func(enc structform.ExtVisitor, ops []model.Op) error {
		for _, op := range ops {
			if err := model.Apply(enc, op); err != nil {
				return err
			}
		}
		return nil
	}
	// JSON encoders get a drawn option setting (the same for the new instance)
	jopts := c.N(8)
	setOpts := func(raw structform.Visitor, o int) {
		if jv, ok := raw.(*sfjson.Visitor); ok {
			jv.SetEscapeHTML(o&1 == 0)
			jv.SetExplicitRadixPoint(o&2 != 0)
			jv.SetIgnoreInvalidFloat(o&4 != 0)
		}
	}
	mkEnc := func(w *simkit.Writer) structform.Visitor {
		raw := cd.NewVisitor(w)
		setOpts(raw, jopts)
		return raw
	}
	// a quarter of the JSON histories re-configure the encoder between
	// documents; the probe runs under jopts again, like the new instance
	var optsAt []int
	if f == model.JSON && c.N(4) == 0 {
		for range hist {
			optsAt = append(optsAt, c.N(8))
		}
		sc.Options = optsAt
	}
	w := simkit.NewWriter()
	w.Clock = &x.Clock
	var v *simkit.Violation
	var reusedOut, freshOut []byte
	var reusedErr, freshErr error
	pi := simkit.Guard(func() {
		raw := mkEnc(w)
		enc := structform.EnsureExtVisitor(raw)
		for i, ops := range hist {
			if optsAt != nil {
				setOpts(raw, optsAt[i])
			}
			if err := encode(enc, ops); err != nil {
				// the encoder refused a document of the history (e.g. NaN in
				// JSON): the instance did not "completely process" it
				st.Probe("encoder-history-doc-refused")
				v = nil
				reusedOut = nil
				sc.History = sc.History[:i]
				return
			}
			if d, ok := raw.(depthser); ok && !zero(d.VerifDepths()) {
				v = &simkit.Violation{Kind: "stack-not-idle", Site: "encoder/" + string(f),
					Detail: fmt.Sprintf("after complete document %d the encoder's nesting stacks are at depth %v", i+1, d.VerifDepths()), Scenario: sc}
				return
			}
		}
		w.Reset()
		if optsAt != nil {
			setOpts(raw, jopts)
		}
		reusedErr = encode(enc, probe)
		reusedOut = simkit.Exact(w.Buf)
	})
	if pi != nil {
		return &simkit.Violation{Kind: "panic", Site: "encoder/" + string(f) + pi.Site, Detail: pi.Value + "\n" + pi.Stack, Scenario: sc}
	}
	if v != nil {
		return v
	}
	if reusedOut == nil && reusedErr == nil {
		return nil
	}
	fw := simkit.NewWriter()
	if pi := simkit.Guard(func() { freshErr = encode(structform.EnsureExtVisitor(mkEnc(fw)), probe) }); pi != nil {
		return nil // a fresh encoder panics on the probe: not a reuse question
	}
	freshOut = fw.Buf
	if (reusedErr == nil) != (freshErr == nil) || string(reusedOut) != string(freshOut) {
		return &simkit.Violation{Kind: "probe-differs", Site: "encoder/" + string(f),
			Detail: fmt.Sprintf("probe on the reused encoder: %x (err %v); on a new encoder: %x (err %v)", reusedOut, reusedErr, freshOut, freshErr), Scenario: sc}
	}
	st.Sample(map[string]interface{}{"kind": "encoder", "format": f, "history_docs": nh, "probe": model.OpsString(probe, 10)})
	return nil
}

func genSelfDelimited(c *simkit.Choices, x *simkit.Ctx, f model.Format) *model.Doc {
	o := model.QuickOpts()
	if x.Thorough && c.N(3) == 0 {
		o = model.ThoroughOpts()
		o.Budget = 25
	}
	if f == model.JSON {
		o.TopContainer = c.N(4) != 0
	}
	d := common.GenDoc(c, f, o, 1)
	if f == model.JSON {
		// a top-level JSON number is only complete at a delimiter
		d.Bytes = append(d.Bytes, '\n')
	}
	return d
}

func drawCuts(c *simkit.Choices, n int) []int {
	if n < 2 || c.N(3) == 0 {
		return nil
	}
	if c.N(4) == 0 {
		cuts := make([]int, 0, n)
		for p := 1; p < n; p++ {
			cuts = append(cuts, p)
		}
		return cuts
	}
	k := 1 + c.Small(6)
	cuts := make([]int, k)
	for i := range cuts {
		cuts[i] = c.N(n + 1)
	}
	for i := 1; i < len(cuts); i++ {
		for j := i; j > 0 && cuts[j-1] > cuts[j]; j-- {
			cuts[j-1], cuts[j] = cuts[j], cuts[j-1]
		}
	}
	return cuts
}

// parsers: one long-lived push parser is fed a history of complete documents
// (each under its own chunk schedule), then a probe.
func parsers(c *simkit.Choices, x *simkit.Ctx) *simkit.Violation {
	st := x.Stats
	f := model.Formats[c.N(3)]
	cd := common.ByName(f)
	nh := 1 + c.N(6)
	sc := &Scenario{Kind: "parser", Format: string(f)}
	var docs [][]byte
	for i := 0; i <= nh; i++ {
		d := genSelfDelimited(c, x, f)
		extreme := ""
		if i < nh && c.N(500) == 0 {
			// a history document far beyond every pre-allocated size: what the
			// instance grew (or shrank back) must not show in the probe
			d, extreme = common.ExtremeDoc(c, f)
			if f == model.JSON {
				d.Bytes = append(d.Bytes, '\n')
			}
			st.Probe("history-holds-extreme-shape")
		}
		docs = append(docs, d.Bytes)
		cuts := drawCuts(c, len(d.Bytes))
		if extreme != "" && len(cuts) > 64 {
			cuts = cuts[:64]
		}
		sc.Cuts = append(sc.Cuts, cuts)
		if extreme != "" {
			sc.History = append(sc.History, fmt.Sprintf("(extreme shape %s, %d bytes) %s", extreme, len(d.Bytes), trunc(hex.EncodeToString(d.Bytes), 128)))
		} else if i < nh {
			sc.History = append(sc.History, hex.EncodeToString(d.Bytes))
		} else {
			sc.Probe = hex.EncodeToString(d.Bytes)
		}
	}
	simkit.SetCurrent(sc)
	st.Eval(1)
	st.Distinct(simkit.NewDigest().Str("parser" + string(f)).Str(fmt.Sprint(sc.History, sc.Cuts)).Str(sc.Probe).Sum())
	t := simkit.NewTap(nil)
	t.Clock = &x.Clock
	var v *simkit.Violation
	skip := false
	pi := simkit.Guard(func() {
		p := cd.NewParser(t)
		for i, d := range docs {
			if i == nh {
				t.Reset()
			}
			if _, err := simkit.Feed(p, d, sc.Cuts[i], true, &x.Clock); err != nil {
				st.Probe("parser-history-doc-refused")
				skip = true
				return
			}
			if id, ok := p.(idler); ok && !id.VerifIdle() {
				dd, _ := simkit.Depths(p)
				v = &simkit.Violation{Kind: "stack-not-idle", Site: "parser/" + string(f),
					Detail: fmt.Sprintf("after complete document %d the parser is not idle: depths %v", i+1, dd), Scenario: sc}
				return
			}
		}
	})
	if pi != nil {
		return &simkit.Violation{Kind: "panic", Site: "parser/" + string(f) + pi.Site, Detail: pi.Value + "\n" + pi.Stack, Scenario: sc}
	}
	if v != nil || skip {
		return v
	}
	ft := simkit.NewTap(nil)
	var ferr error
	if pi := simkit.Guard(func() { _, ferr = simkit.Feed(cd.NewParser(ft), docs[nh], nil, false, nil) }); pi != nil || ferr != nil {
		return nil
	}
	if d := simkit.DiffEvents(ft.Events, t.Events); d >= 0 {
		return &simkit.Violation{Kind: "probe-differs", Site: "parser/" + string(f),
			Detail: fmt.Sprintf("probe events differ at %d: new parser %s | reused parser %s", d, simkit.EventsString(ft.Events, 12), simkit.EventsString(t.Events, 12)), Scenario: sc}
	}
	st.Sample(map[string]interface{}{"kind": "parser", "format": f, "history_docs": nh, "probe_hex": trunc(sc.Probe, 80)})
	return nil
}

// parseMethod: Parser.Parse / ParseString called repeatedly on one instance.
func parseMethod(c *simkit.Choices, x *simkit.Ctx) *simkit.Violation {
	st := x.Stats
	f := model.Formats[c.N(3)]
	cd := common.ByName(f)
	nh := 1 + c.N(5)
	sc := &Scenario{Kind: "parser.Parse", Format: string(f)}
	var docs [][]byte
	o := model.QuickOpts()
	for i := 0; i <= nh; i++ {
		d := common.GenDoc(c, f, o, 1)
		docs = append(docs, d.Bytes)
		if i < nh {
			sc.History = append(sc.History, hex.EncodeToString(d.Bytes))
		} else {
			sc.Probe = hex.EncodeToString(d.Bytes)
		}
	}
	simkit.SetCurrent(sc)
	st.Eval(1)
	st.Distinct(simkit.NewDigest().Str("parse" + string(f)).Str(fmt.Sprint(sc.History)).Str(sc.Probe).Sum())
	type parseI interface {
		Parse([]byte) error
		ParseString(string) error
	}
	t := simkit.NewTap(nil)
	t.Clock = &x.Clock
	var perr error
	skip := false
	var v *simkit.Violation
	pi := simkit.Guard(func() {
		p := cd.NewParser(t).(parseI)
		for i, d := range docs {
			if i == nh {
				t.Reset()
			}
			var err error
			switch c.N(3) {
			case 0:
				err = p.Parse(simkit.Exact(d))
			case 1:
				err = p.ParseString(string(d))
			default:
				// the same instance fed through Write (no end-of-input signal:
				// JSON documents get a delimiter so that a number completes)
				dd := d
				if f == model.JSON {
					dd = append(simkit.Exact(d), '\n')
				}
				_, err = simkit.Feed(p.(io.Writer), dd, drawCuts(c, len(dd)), true, &x.Clock)
			}
			if i == nh {
				perr = err
			} else if err != nil {
				st.Probe("parse-history-doc-refused")
				skip = true
				return
			} else if id, ok := p.(idler); ok && !id.VerifIdle() {
				v = &simkit.Violation{Kind: "stack-not-idle", Site: "parser.Parse/" + string(f),
					Detail: fmt.Sprintf("after complete document %d the parser is not idle: depths %v", i+1, func() []int { d, _ := simkit.Depths(p); return d }()), Scenario: sc}
				return
			}
		}
	})
	if pi != nil {
		return &simkit.Violation{Kind: "panic", Site: "parser.Parse/" + string(f) + pi.Site, Detail: pi.Value + "\n" + pi.Stack, Scenario: sc}
	}
	if v != nil || skip {
		return v
	}
	ft := simkit.NewTap(nil)
	var ferr error
	if pi := simkit.Guard(func() { ferr = cd.Parse(simkit.Exact(docs[nh]), ft) }); pi != nil {
		return nil
	}
	if (ferr == nil) != (perr == nil) {
		return &simkit.Violation{Kind: "probe-differs", Site: "parser.Parse/" + string(f),
			Detail: fmt.Sprintf("probe verdict: new parser %v | reused parser %v", ferr, perr), Scenario: sc}
	}
	if d := simkit.DiffEvents(ft.Events, t.Events); d >= 0 && ferr == nil {
		return &simkit.Violation{Kind: "probe-differs", Site: "parser.Parse/" + string(f),
			Detail: fmt.Sprintf("probe events differ at %d: new parser %s | reused parser %s", d, simkit.EventsString(ft.Events, 12), simkit.EventsString(t.Events, 12)), Scenario: sc}
	}
	return nil
}

// decoders: the probe is the last value of a stream read by one decoder.
func decoders(c *simkit.Choices, x *simkit.Ctx) *simkit.Violation {
	st := x.Stats
	f := model.Formats[c.N(3)]
	cd := common.ByName(f)
	nh := 1 + c.N(5)
	o := model.QuickOpts()
	doc := common.GenDoc(c, f, o, nh+1)
	sc := &Scenario{Kind: "decoder", Format: string(f), Probe: hex.EncodeToString(doc.Bytes[doc.Values[nh][0]:doc.Values[nh][1]])}
	sc.History = []string{hex.EncodeToString(doc.Bytes)}
	useReader := c.Bool()
	if useReader {
		sc.BufSize = common.DrawBufSize(c)
		for i, n := 0, 1+c.N(3); i < n; i++ {
			sc.Reads = append(sc.Reads, 1+c.N(12))
		}
	}
	simkit.SetCurrent(sc)
	st.Eval(1)
	st.Distinct(simkit.NewDigest().Str("dec" + string(f)).Bytes(doc.Bytes).Int(sc.BufSize).Ints(sc.Reads).Sum())
	mk := func(b []byte, t *simkit.Tap) common.Decoder {
		if useReader {
			return cd.NewDecoder(&simkit.Reader{Data: b, Sizes: sc.Reads, Clock: &x.Clock}, sc.BufSize, t)
		}
		return cd.NewBytesDecoder(b, t)
	}
	t := simkit.NewTap(nil)
	t.Clock = &x.Clock
	var err error
	var v *simkit.Violation
	pi := simkit.Guard(func() {
		dec := mk(simkit.Exact(doc.Bytes), t)
		for i := 0; i <= nh; i++ {
			t.Reset()
			if err = dec.Next(); err != nil {
				return
			}
			type withParser interface{ VerifParserIdle() bool }
			_ = withParser(nil)
		}
	})
	if pi != nil {
		return &simkit.Violation{Kind: "panic", Site: "decoder/" + string(f) + pi.Site, Detail: pi.Value + "\n" + pi.Stack, Scenario: sc}
	}
	if v != nil {
		return v
	}
	ft := simkit.NewTap(nil)
	var ferr error
	probe := simkit.Exact(doc.Bytes[doc.Values[nh][0]:])
	if pi := simkit.Guard(func() { ferr = mk(probe, ft).Next() }); pi != nil {
		return nil
	}
	if (ferr == nil) != (err == nil) {
		return &simkit.Violation{Kind: "probe-differs", Site: "decoder/" + string(f),
			Detail: fmt.Sprintf("last value of the stream: new decoder %v | reused decoder %v", ferr, err), Scenario: sc}
	}
	if d := simkit.DiffEvents(ft.Events, t.Events); d >= 0 && ferr == nil {
		return &simkit.Violation{Kind: "probe-differs", Site: "decoder/" + string(f),
			Detail: fmt.Sprintf("probe events differ at %d: new decoder %s | reused decoder %s", d, simkit.EventsString(ft.Events, 12), simkit.EventsString(t.Events, 12)), Scenario: sc}
	}
	return nil
}

func pickType(c *simkit.Choices) *model.TypeEntry {
	return model.PickType(c, true, false, false)
}

// iterator: one Iterator folds a history of values, then a probe value.
func iterator(c *simkit.Choices, x *simkit.Ctx) *simkit.Violation {
	st := x.Stats
	nh := 1 + c.N(6)
	sc := &Scenario{Kind: "iterator"}
	if c.N(4) == 0 {
		sc.UserFolders = 1 + c.N(model.NumFolderVariants-1)
	}
	manyTypes := 0
	if c.N(300) == 0 {
		manyTypes = []int{300, 513, 600, 1100, 2100}[c.N(5)]
		sc.ManyTypes = manyTypes
		if c.Bool() {
			sc.UserFolders = 1 + c.N(model.NumFolderVariants-1)
		}
		st.Fault("hundreds-of-distinct-types-first")
	}
	fopts := model.FolderOpts(sc.UserFolders)
	var vals []interface{}
	related := model.PickRelated(c, nh+1, false) // fold-only types included
	for i := 0; i <= nh; i++ {
		te := related[i]
		if i > 0 && c.N(3) == 0 {
			te = model.TypeByName(sc.Types[c.N(len(sc.Types))]) // re-use of an already compiled type
		}
		v := te.Gen(c)
		if c.N(6) == 0 {
			// maps with SEVERAL entries, nested (compared in canonical form)
			v, te = genNestedMaps(c, 0), model.TypeByName("map[string]interface{}")
		}
		vals = append(vals, v)
		sc.Types = append(sc.Types, te.Name)
		if i < nh {
			sc.History = append(sc.History, model.Render(v))
		} else {
			sc.Probe = model.Render(v)
		}
	}
	simkit.SetCurrent(sc)
	st.Eval(1)
	st.Distinct(simkit.NewDigest().Str("iter").Str(fmt.Sprint(sc.History, sc.Types, sc.UserFolders, sc.ManyTypes)).Str(sc.Probe).Sum())
	t := simkit.NewTap(nil)
	t.Clock = &x.Clock
	var perr error
	skip := false
	cur := 0
	pi := simkit.Guard(func() {
		it, err := gotype.NewIterator(t, fopts...)
		if err != nil {
			skip = true
			return
		}
		if manyTypes > 0 {
			// hundreds to thousands of DISTINCT Go types go through this one
			// iterator first (whatever it keeps per type is bounded or not)
			t.NoRecord = true
			for k := 0; k < manyTypes; k++ {
				if k&255 == 0 {
					x.Alive()
				}
				if err := it.Fold(dynStruct(k).Elem().Interface()); err != nil {
					skip = true
					return
				}
			}
			t.NoRecord = false
			t.Reset()
		}
		for i, v := range vals {
			cur = i
			if i == nh {
				t.Reset()
				perr = it.Fold(v)
				return
			}
			if err := it.Fold(v); err != nil {
				st.Probe("iterator-history-value-refused")
				skip = true
				return
			}
		}
	})
	if pi != nil {
		// a value that makes a NEW iterator panic as well is not a reuse question
		if fp := simkit.Guard(func() { gotype.Fold(vals[cur], simkit.NewTap(nil), fopts...) }); fp != nil {
			st.Probe("value-panics-on-a-new-iterator-too")
			return nil
		}
		return &simkit.Violation{Kind: "panic", Site: "iterator" + pi.Site, Detail: pi.Value + "\n" + pi.Stack, Scenario: sc}
	}
	if skip {
		return nil
	}
	ft := simkit.NewTap(nil)
	var ferr error
	if pi := simkit.Guard(func() { ferr = gotype.Fold(vals[nh], ft, fopts...) }); pi != nil {
		return nil
	}
	if (ferr == nil) != (perr == nil) {
		return &simkit.Violation{Kind: "probe-differs", Site: "iterator/" + sc.Types[nh],
			Detail: fmt.Sprintf("probe: new iterator %v | reused iterator %v", ferr, perr), Scenario: sc}
	}
	// (member order of Go maps has no seam: streams are compared in canonical
	// form, members sorted by key - which is what lets maps with several
	// entries take part)
	fe, te := simkit.CanonEvents(ft.Events), simkit.CanonEvents(t.Events)
	if d := simkit.DiffEvents(fe, te); d >= 0 && ferr == nil {
		ft.Events, t.Events = fe, te
		return &simkit.Violation{Kind: "probe-differs", Site: "iterator/" + sc.Types[nh],
			Detail: fmt.Sprintf("probe events differ at %d: new iterator %s | reused iterator %s", d, simkit.EventsString(ft.Events, 12), simkit.EventsString(t.Events, 12)), Scenario: sc}
	}
	st.Sample(map[string]interface{}{"kind": "iterator", "types": sc.Types})
	return nil
}

// recordFold returns the event stream of folding v (nil if refused).
func recordFold(v interface{}) []simkit.Ev {
	if tr, ok := v.(model.Tree); ok {
		return model.TreeEvents(tr) // cannot be folded (self-referential type)
	}
	t := simkit.NewTap(nil)
	var err error
	if pi := simkit.Guard(func() { err = gotype.Fold(v, t) }); pi != nil || err != nil {
		return nil
	}
	return t.Events
}

// RecordFold is exported for other engines.
func RecordFold(v interface{}) []simkit.Ev { return recordFold(v) }

func deliver(u *gotype.Unfolder, evs []simkit.Ev, byRef bool) error {
	for _, e := range evs {
		if err := simkit.Emit(u, e, byRef); err != nil {
			return err
		}
	}
	return nil
}

// unfolder: one Unfolder builds a history of values (SetTarget per document),
// then a probe; a new unfolder must build the same probe value.
func unfolder(c *simkit.Choices, x *simkit.Ctx) *simkit.Violation {
	st := x.Stats
	nh := 1 + c.N(6)
	sc := &Scenario{Kind: "unfolder"}
	type docT struct {
		te    *model.TypeEntry
		evs   []simkit.Ev
		ref   bool
		src   interface{}
		inner bool // the target is the FIRST FIELD of the previous document's target (same address, another type)
	}
	var docs []docT
	uv := 0
	if c.N(3) == 0 {
		uv = 1 + c.N(model.NumUnfolderVariants-1) // user-defined unfolders for model.Score
	}
	related := model.PickRelated(c, nh+1, true)
	useArena := c.N(3) == 0
	similar := useArena && c.Bool() // a stream of records of one type, as a log shipper sees it
	for i := 0; i <= nh; i++ {
		te := related[i]
		if i > 0 && (similar || c.N(3) == 0) {
			te = docs[c.N(len(docs))].te // the same type again: cached unfolders
		}
		if uv != 0 && c.N(5) == 0 && !similar {
			te = &model.TreeEntry
		}
		if c.N(12) == 0 && !similar {
			// a target type the unfolder must refuse (SetTarget error), now and
			// every later time, without leaving anything behind
			te = model.TypeByName([]string{"BadField", "HasBad", "[]BadField", "map[int]string", "IfaceField", "HasIface", "[]Namer", "map[string]Namer"}[c.N(8)])
		}
		v := te.Gen(c)
		evs := recordFold(v)
		if !te.Supported {
			evs = []simkit.Ev{{K: simkit.KObjStart, I: -1}, {K: simkit.KKey, S: "a"}, {K: simkit.KInt64, I: 1}, {K: simkit.KObjEnd}}
		}
		if evs == nil {
			st.Probe("unfolder-value-not-foldable")
			return nil
		}
		if c.N(4) == 0 {
			evs = model.RetypeNumbers(c, evs) // the same values in other integer event kinds
		}
		docs = append(docs, docT{te: te, evs: evs, ref: c.Bool(), src: v})
		sc.Types = append(sc.Types, te.Name)
		if i < nh {
			sc.History = append(sc.History, simkit.EventsString(evs, 30))
		} else {
			sc.Probe = simkit.EventsString(evs, 30)
		}
	}
	// an eighth of the probes go into a target that lives INSIDE the previous
	// target: &rec, then &rec.FirstField - the same address, another type, no
	// Reset in between
	innerProbe := false
	if c.N(8) == 0 && nh >= 1 && docs[nh-1].te.Supported {
		if pv := reflect.ValueOf(docs[nh-1].src); pv.Kind() == reflect.Struct && pv.NumField() > 0 && pv.Type().Field(0).PkgPath == "" {
			if evs := recordFold(pv.Field(0).Interface()); evs != nil {
				innerProbe = true
				docs[nh] = docT{te: docs[nh-1].te, evs: evs, ref: c.Bool(), inner: true}
				sc.Types[nh] = docs[nh-1].te.Name + "." + pv.Type().Field(0).Name
				sc.Probe = simkit.EventsString(evs, 30)
				st.Fault("target-inside-previous-target")
			}
		}
	}
	manyTargets := 0
	if c.N(300) == 0 {
		manyTargets = []int{300, 513, 600, 1100, 2100}[c.N(5)]
		sc.ManyTypes = manyTargets
		st.Fault("hundreds-of-distinct-types-first")
	}
	keyCache := -1
	if c.N(3) == 0 {
		keyCache = 1 + c.N(4)
	}
	// a third of the histories pass every key and string as a view into ONE
	// buffer that is overwritten from its start by each following document
	var arena *simkit.Arena
	if useArena {
		total := 0
		for _, d := range docs {
			n := 0
			for _, e := range d.evs {
				n += len(e.S)
			}
			if n > total {
				total = n
			}
		}
		arena = simkit.NewArena(total)
		sc.Arena = true
	}
	simkit.SetCurrent(sc)
	st.Eval(1)
	st.Distinct(simkit.NewDigest().Str("unf").Str(fmt.Sprint(sc.History, sc.Types, sc.Arena, sc.ManyTypes)).Str(sc.Probe).Sum())
	var reused, fresh interface{}
	var rerr, ferr error
	var v *simkit.Violation
	skip := false
	refusedProbe := false
	pi := simkit.Guard(func() {
		u, err := gotype.NewUnfolder(nil, model.UnfolderOpts(uv)...)
		if err != nil {
			skip = true
			return
		}
		if keyCache > 0 {
			u.EnableKeyCache(keyCache)
		}
		idle, hooked := simkit.Depths(u)
		idle = append([]int{}, idle...)
		for k := 0; k < manyTargets; k++ {
			if k&255 == 0 {
				x.Alive()
			}
			tp := dynStruct(k)
			if u.SetTarget(tp.Interface()) != nil {
				skip = true
				return
			}
			name := strings.ToLower(tp.Elem().Type().Field(0).Name)
			for _, e := range []simkit.Ev{{K: simkit.KObjStart, I: 1}, {K: simkit.KKey, S: name}, {K: simkit.KInt64, I: int64(k % 100)}, {K: simkit.KObjEnd}} {
				if simkit.Emit(u, e, false) != nil {
					skip = true
					return
				}
			}
		}
		var prevPtr interface{}
		for i, d := range docs {
			ptr, _, val := d.te.NewTarget()
			if d.inner {
				f0 := reflect.ValueOf(prevPtr).Elem().Field(0)
				ptr = f0.Addr().Interface()
				val = func() interface{} { return f0.Interface() }
			}
			prevPtr = ptr
			if err := u.SetTarget(ptr); err != nil {
				if d.te.Supported {
					skip = true
					return
				}
				st.Probe("unsupported-target-refused-by-reused-unfolder")
				if i == nh {
					rerr, refusedProbe = err, true
					return
				}
				continue
			} else if !d.te.Supported {
				v = &simkit.Violation{Kind: "probe-differs", Site: "unfolder/SetTarget/" + d.te.Name,
					Detail: fmt.Sprintf("document %d: the re-used unfolder accepted a target of type %s, which a new unfolder refuses", i+1, d.te.Name), Scenario: sc}
				return
			}
			var err error
			if arena != nil {
				arena.Rewind()
				for _, e := range d.evs {
					if err = simkit.EmitArena(u, e, arena); err != nil {
						break
					}
				}
			} else {
				err = deliver(u, d.evs, d.ref)
			}
			if i == nh {
				rerr = err
				reused = model.DeepCopy(val())
				return
			}
			if err != nil {
				st.Probe("unfolder-history-doc-refused")
				skip = true
				return
			}
			if c.N(2) == 0 && !(innerProbe && i == nh-1) {
				u.Reset()
				if now, _ := simkit.Depths(u); hooked && !reflect.DeepEqual(now, idle) {
					v = &simkit.Violation{Kind: "stack-not-idle", Site: "unfolder/" + d.te.Name,
						Detail: fmt.Sprintf("after document %d and Reset the unfolder stacks are %v, a new unfolder has %v", i+1, now, idle), Scenario: sc}
					return
				}
			}
		}
	})
	if pi != nil {
		return &simkit.Violation{Kind: "panic", Site: "unfolder" + pi.Site, Detail: pi.Value + "\n" + pi.Stack, Scenario: sc}
	}
	if v != nil || skip {
		return v
	}
	if refusedProbe {
		return nil // refused, as a new unfolder does (the type is in the unsupported list)
	}
	if pi := simkit.Guard(func() {
		d := docs[nh]
		ptr, _, val := d.te.NewTarget()
		if d.inner {
			f0 := reflect.New(reflect.TypeOf(docs[nh-1].src).Field(0).Type)
			ptr = f0.Interface()
			val = func() interface{} { return f0.Elem().Interface() }
		}
		u, err := gotype.NewUnfolder(ptr, model.UnfolderOpts(uv)...)
		if err != nil {
			ferr = err
			return
		}
		ferr = deliver(u, d.evs, d.ref)
		fresh = model.DeepCopy(val())
	}); pi != nil {
		return nil
	}
	if (ferr == nil) != (rerr == nil) || (ferr == nil && !model.DeepEq(fresh, reused)) {
		return &simkit.Violation{Kind: "probe-differs", Site: "unfolder/" + sc.Types[nh],
			Detail: fmt.Sprintf("probe: new unfolder built %s (err %v) | reused unfolder built %s (err %v)", model.Render(fresh), ferr, model.Render(reused), rerr), Scenario: sc}
	}
	st.Sample(map[string]interface{}{"kind": "unfolder", "types": sc.Types})
	return nil
}

var _ = io.EOF

func trunc(s string, n int) string {
	if len(s) > n {
		return s[:n] + "…"
	}
	return s
}

var dynTypes []reflect.Type

// dynStruct returns a pointer to a zero value of the k-th generated struct type
// struct{ F<k> int8; S string } (distinct types for distinct k).
func dynStruct(k int) reflect.Value {
	for len(dynTypes) <= k {
		n := len(dynTypes)
		dynTypes = append(dynTypes, reflect.StructOf([]reflect.StructField{
			{Name: fmt.Sprintf("F%d", n), Type: reflect.TypeOf(int8(0))},
			{Name: "S", Type: reflect.TypeOf("")},
		}))
	}
	return reflect.New(dynTypes[k])
}

// genNestedMaps draws a map[string]interface{} with 2-5 entries, some of them
// maps with more entries than their parent has.
func genNestedMaps(c *simkit.Choices, depth int) map[string]interface{} {
	n := 2 + c.N(4)
	if depth > 0 {
		n += c.N(4)
	}
	m := make(map[string]interface{}, n)
	for i := 0; i < n; i++ {
		k := string(rune('a'+i)) + model.GenKey(c, 3)
		switch {
		case depth < 2 && c.N(3) == 0:
			m[k] = genNestedMaps(c, depth+1)
		case c.N(4) == 0:
			m[k] = map[string]string{"x": "1", "y": "2", "z": model.GenText(c, 4)}
		default:
			m[k] = i
		}
	}
	return m
}
