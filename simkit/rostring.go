package simkit

import (
	"syscall"
	"unsafe"
)

// A string CONSTANT lives in read-only memory. ParseString(string) entry points
// that view the string's bytes through unsafe must therefore never write to
// them ("unquote in place"): on a heap string that silently changes an
// immutable value, on a constant it is a fault that ends the process. The
// simulator presents such inputs the way the linker does: in a page-protected
// mapping. The caller runs the library under debug.SetPanicOnFault(true), so
// the fault surfaces as an ordinary panic of the guarded call.

const roArenaSize = 1 << 20

var roArena []byte

// ReadOnlyString returns the bytes of b as a string placed in a PROT_READ
// mapping (one arena per process, refilled on every call: the previous string
// is dead by then). ok is false if the platform refuses or b does not fit; the
// caller then uses an ordinary string.
func ReadOnlyString(b []byte) (s string, ok bool) {
	if len(b) == 0 || len(b) > roArenaSize {
		return "", false
	}
	if roArena == nil {
		m, err := syscall.Mmap(-1, 0, roArenaSize, syscall.PROT_READ|syscall.PROT_WRITE, syscall.MAP_ANON|syscall.MAP_PRIVATE)
		if err != nil {
			return "", false
		}
		roArena = m
	} else if err := syscall.Mprotect(roArena, syscall.PROT_READ|syscall.PROT_WRITE); err != nil {
		return "", false
	}
	copy(roArena, b)
	if err := syscall.Mprotect(roArena, syscall.PROT_READ); err != nil {
		return "", false
	}
	return unsafe.String(&roArena[0], len(b)), true
}
