// vcheck: driver, worker and replay tool of the deterministic simulation
// checks. See /verif/DESIGN.md §2.
package main

import (
	"bytes"
	"context"
	"encoding/json"
	"flag"
	"fmt"
	"os"
	"os/exec"
	"path/filepath"
	"runtime"
	"sort"
	"strconv"
	"strings"
	"sync"
	"time"

	"verif/engines/conc"
	"verif/simkit"
)

var verifDir = func() string {
	if d := os.Getenv("VERIF_DIR"); d != "" {
		return d
	}
	return "/verif"
}()

func envU64(name string, def uint64) uint64 {
	if s := os.Getenv(name); s != "" {
		if v, err := strconv.ParseUint(s, 10, 64); err == nil {
			return v
		}
		if v, err := strconv.ParseInt(s, 10, 64); err == nil {
			return uint64(v)
		}
	}
	return def
}

func main() {
	if len(os.Args) < 2 {
		usage()
	}
	switch os.Args[1] {
	case "run":
		os.Exit(driverMain(os.Args[2:]))
	case "worker":
		os.Exit(workerCmd(os.Args[2:]))
	case "replay":
		os.Exit(replayDriver(os.Args[2:]))
	case "replay-child":
		if len(os.Args) < 4 {
			usage()
		}
		traceOut := ""
		if len(os.Args) > 4 {
			traceOut = os.Args[4]
		}
		os.Exit(replayMain(os.Args[2], os.Args[3], traceOut))
	case "conc-free":
		os.Exit(conc.FreeMain(os.Stdin, os.Stdout))
	case "conc-ref":
		task := 0
		if len(os.Args) > 2 {
			task, _ = strconv.Atoi(os.Args[2])
		}
		os.Exit(conc.RefMain(os.Stdin, os.Stdout, task))
	case "selftest-determinism":
		os.Exit(selftestDeterminism(os.Args[2:]))
	case "list":
		var ids []string
		for id := range registry {
			ids = append(ids, id)
		}
		sort.Strings(ids)
		fmt.Println(strings.Join(ids, " "))
	default:
		usage()
	}
}

func usage() {
	fmt.Fprintln(os.Stderr, "usage: vcheck run <property> <quick|thorough> | replay <file> | selftest-determinism [props…] | list")
	os.Exit(2)
}

func workerCmd(args []string) int {
	fs := flag.NewFlagSet("worker", flag.ExitOnError)
	var a workerArgs
	var skip string
	fs.StringVar(&a.Prop, "prop", "", "")
	fs.Uint64Var(&a.Seed, "seed", 1, "")
	fs.IntVar(&a.W, "w", 0, "")
	fs.IntVar(&a.NW, "nw", 1, "")
	fs.Int64Var(&a.Runs, "runs", 1, "")
	fs.Int64Var(&a.First, "first", 0, "")
	fs.Int64Var(&a.Deadline, "deadline", 0, "")
	fs.BoolVar(&a.Thorough, "thorough", false, "")
	fs.StringVar(&a.Progress, "progress", "", "")
	fs.StringVar(&skip, "skip", "", "")
	fs.BoolVar(&a.Selftest, "selftest", false, "")
	fs.Uint64Var(&a.ASLimit, "aslimit", 0, "")
	fs.StringVar(&a.OutDir, "out", filepath.Join(verifDir, "replays"), "")
	fs.Parse(args)
	if skip != "" {
		a.Skip = strings.Split(skip, ",")
	}
	return workerMain(a)
}

func selfPath(race bool) string {
	if v := os.Getenv("VERIF_BIN"); v != "" && !race {
		return v // a differently instrumented build of this program (bin/coverage)
	}
	if race {
		return filepath.Join(verifDir, ".build", "vcheck-race")
	}
	return filepath.Join(verifDir, ".build", "vcheck")
}

type childResult struct {
	exit     int
	stdout   []byte
	stderr   []byte
	timedOut bool
}

func runChild(timeout time.Duration, bin string, args ...string) childResult {
	ctx, cancel := context.WithTimeout(context.Background(), timeout)
	defer cancel()
	cmd := exec.CommandContext(ctx, bin, args...)
	cmd.Env = append(os.Environ(), `GORACE=halt_on_error=1 atexit_sleep_ms=0`, "GODEBUG=clobberfree=1", "GOMAXPROCS="+gomaxprocs())
	var so, se bytes.Buffer
	cmd.Stdout, cmd.Stderr = &so, &se
	err := cmd.Run()
	r := childResult{stdout: so.Bytes(), stderr: se.Bytes()}
	if ctx.Err() == context.DeadlineExceeded {
		r.timedOut = true
		r.exit = -1
		return r
	}
	if err != nil {
		if ee, ok := err.(*exec.ExitError); ok {
			r.exit = ee.ExitCode()
		} else {
			r.exit = -2
		}
	}
	return r
}

var workerGoMaxProcs = "2"

func gomaxprocs() string {
	if s := os.Getenv("VERIF_GOMAXPROCS"); s != "" {
		return s
	}
	return workerGoMaxProcs
}

// crashKind classifies a worker exit that is not a regular result.
func crashKind(r childResult) (kind, site string) {
	se := string(r.stderr)
	switch {
	case r.timedOut || r.exit == 3:
		return "hang", "watchdog"
	case r.exit == 66 || strings.Contains(se, "WARNING: DATA RACE"):
		return "race", raceSite(se)
	case strings.Contains(se, "fatal error: checkptr"):
		return "checkptr", fatalSite(se)
	case strings.Contains(se, "fatal error:"):
		msg := se[strings.Index(se, "fatal error:"):]
		if i := strings.IndexByte(msg, '\n'); i > 0 {
			msg = msg[:i]
		}
		return "fatal", simkit.NormalisePanic(strings.TrimPrefix(msg, "fatal error: "))
	case strings.Contains(se, "unexpected fault address") || strings.Contains(se, "SIGSEGV"):
		return "fatal", "segv"
	}
	return "", ""
}

func raceSite(se string) string {
	for _, l := range strings.Split(se, "\n") {
		l = strings.TrimSpace(l)
		if strings.HasPrefix(l, "github.com/elastic/go-structform") {
			if i := strings.LastIndexByte(l, '('); i > 0 {
				l = l[:i]
			}
			return strings.TrimPrefix(l, "github.com/elastic/go-structform")
		}
	}
	return "unknown"
}

func fatalSite(se string) string {
	for _, l := range strings.Split(se, "\n") {
		l = strings.TrimSpace(l)
		if strings.HasPrefix(l, "github.com/elastic/go-structform") {
			if i := strings.LastIndexByte(l, '('); i > 0 {
				l = l[:i]
			}
			return strings.TrimPrefix(l, "github.com/elastic/go-structform")
		}
	}
	return "unknown"
}

func tailStr(b []byte, n int) string {
	if len(b) > n {
		b = b[len(b)-n:]
	}
	return string(b)
}

func headStr(b []byte, n int) string {
	if len(b) > n {
		b = b[:n]
	}
	return string(b)
}

type finding struct {
	Property  string `json:"property"`
	ID        string `json:"id"`
	What      string `json:"what"`
	Replay    string `json:"replay"`
	Class     string `json:"class"`
	Predicate string `json:"predicate"`
}

type findingsFile struct {
	Findings []finding `json:"findings"`
	Fixed    []string  `json:"fixed"`
}

func loadFindings() findingsFile {
	var ff findingsFile
	b, err := os.ReadFile(filepath.Join(verifDir, "known_findings.json"))
	if err == nil {
		json.Unmarshal(b, &ff)
	}
	return ff
}

func driverMain(args []string) int {
	if len(args) < 1 {
		usage()
	}
	prop := args[0]
	tier := os.Getenv("VERIF_TIER")
	if len(args) > 1 {
		tier = args[1]
	}
	if tier != "thorough" {
		tier = "quick"
	}
	cfg := registry[prop]
	if cfg == nil {
		fmt.Fprintf(os.Stderr, "unknown property %s\n", prop)
		return 2
	}
	seed := envU64("VERIF_SEED", 1)
	nw := int(envU64("VERIF_WORKERS", uint64(runtime.NumCPU())))
	if nw > 16 {
		nw = 16
	}
	if nw < 1 {
		nw = 1
	}
	runs, capS := int64(cfg.QuickRuns), cfg.QuickCapS
	if tier == "thorough" {
		runs, capS = int64(cfg.ThoroughRuns), cfg.ThoroughCapS
	}
	if v := envU64("VERIF_RUNS", 0); v > 0 {
		runs = int64(v)
	}
	if v := envU64("VERIF_CAP_S", 0); v > 0 {
		capS = int(v)
	}
	t0 := time.Now()
	deadline := t0.Add(time.Duration(capS) * time.Second).Unix()
	outDir := filepath.Join(verifDir, "replays")
	os.MkdirAll(outDir, 0o755)
	tmpDir := filepath.Join(verifDir, ".build", fmt.Sprintf("run-%s-%d", prop, os.Getpid()))
	os.MkdirAll(tmpDir, 0o755)
	defer os.RemoveAll(tmpDir)

	bin := selfPath(cfg.Race)
	if cfg.GoMaxProcs != "" {
		// one P: tasks share sync.Pool slots and other per-P state, as busy
		// goroutines multiplexed on one thread would
		workerGoMaxProcs = cfg.GoMaxProcs
	}
	fmt.Printf("vcheck property=%s tier=%s VERIF_SEED=%d engine=%s runs=%d workers=%d cap=%ds race=%v\n",
		prop, tier, seed, cfg.EngineName, runs, nw, capS, cfg.Race)

	// known findings: replay canonical scenarios, collect steering predicates
	var skip []string
	knownReproduced := 0
	for _, f := range loadFindings().Findings {
		if f.Property != prop {
			continue
		}
		if f.Predicate != "" {
			skip = append(skip, f.Predicate)
		}
		r := runChild(150*time.Second, bin, "replay-child", filepath.Join(verifDir, f.Replay), filepath.Join(tmpDir, "kf.progress"))
		k, _ := crashKind(r)
		if r.exit == 1 || k != "" {
			fmt.Printf("KNOWN-FINDING: property=%s %s (%s)\n", prop, f.What, f.ID)
			knownReproduced++
		} else if r.exit == 0 {
			fmt.Printf("note: known finding %s no longer reproduces (replay is clean)\n", f.ID)
		} else {
			fmt.Fprintf(os.Stderr, "harness trouble replaying known finding %s: exit %d\n%s\n", f.ID, r.exit, tailStr(r.stderr, 2000))
			return 2
		}
	}

	type wout struct {
		res   *workerResult
		crash *workerViolation
		err   string
		// the run indices executed by the crashed worker process before the
		// failing run: batchFirst, batchFirst+batchStride, ...
		batchFirst, batchStride uint64
	}
	runPhase := func(bin string, raceBin bool, runs int64) []wout {
		outs := make([]wout, nw)
		var wg sync.WaitGroup
		for w := 0; w < nw; w++ {
			wg.Add(1)
			go func(w int) {
				defer wg.Done()
				outs[w] = wout{}
				merged := &workerResult{Worker: w, Stats: simkit.NewStats(), MismatchRun: -1}
				distinct := map[uint64]struct{}{}
				states := map[uint64]struct{}{}
				first := int64(0)
				for {
					limit := runs
					if cfg.RunsPerProc > 0 {
						if l := first + int64(cfg.RunsPerProc*nw); l < limit {
							limit = l
						}
					}
					pf := filepath.Join(tmpDir, fmt.Sprintf("w%d.progress", w))
					wa := []string{"worker", "-prop", prop, "-seed", fmt.Sprint(seed), "-w", fmt.Sprint(w), "-nw", fmt.Sprint(nw),
						"-runs", fmt.Sprint(limit), "-first", fmt.Sprint(first), "-deadline", fmt.Sprint(deadline), "-progress", pf,
						"-out", outDir, "-skip", strings.Join(skip, ",")}
					if tier == "thorough" {
						wa = append(wa, "-thorough")
					}
					if !raceBin {
						wa = append(wa, "-aslimit", fmt.Sprint(uint64(24)<<30))
					}
					r := runChild(time.Duration(capS+400)*time.Second, bin, wa...)
					var res workerResult
					if r.exit == 0 && json.Unmarshal(r.stdout, &res) == nil && res.Stats != nil {
						mergeResult(merged, &res, distinct, states)
					} else {
						kind, site := crashKind(r)
						run, ok := readProgress(pf)
						if kind == "" || !ok {
							outs[w].err = fmt.Sprintf("worker %d: exit %d, no attributable crash\nstderr: %s\nstdout: %s", w, r.exit, tailStr(r.stderr, 3000), headStr(r.stdout, 500))
							return
						}
						v := &simkit.Violation{Kind: kind, Site: site, Detail: tailStr(r.stderr, 2500)}
						rf := &ReplayFile{Property: prop, VerifSeed: seed, Run: uint64(run), Thorough: tier == "thorough", Trace: nil, Skip: skip, Violation: v, Race: raceBin,
							Note: "process-level failure: not minimised; replay regenerates the run from (verif_seed, run)"}
						path := fmt.Sprintf("%s/%s-%d-%d.json", outDir, prop, seed, run)
						writeJSON(path, rf)
						outs[w].crash = &workerViolation{Run: uint64(run), File: path, V: v}
						outs[w].batchFirst, outs[w].batchStride = uint64(first+int64(w)), uint64(nw)
						break
					}
					if len(res.Violations) > 0 || res.CapHit || limit >= runs {
						break
					}
					first = limit
				}
				merged.Distinct = keysOf(distinct)
				merged.States = keysOf(states)
				outs[w].res = merged
			}(w)
		}
		wg.Wait()
		return outs
	}
	outs := runPhase(bin, cfg.Race, runs)
	racePhaseRuns := int64(0)
	if cfg.RacePhaseRuns > 0 && !cfg.Race {
		// second phase: the same run indices under the -race build (checkptr
		// instruments every unsafe conversion; no address-space limit there)
		racePhaseRuns = int64(cfg.RacePhaseRuns)
		if tier == "thorough" {
			racePhaseRuns *= 10
		}
		if racePhaseRuns > runs {
			racePhaseRuns = runs
		}
		outs = append(outs, runPhase(selfPath(true), true, racePhaseRuns)...)
	}

	// merge
	total := simkit.NewStats()
	total.MaxSamples = 6
	distinct := map[uint64]struct{}{}
	states := map[uint64]struct{}{}
	all := &workerResult{Stats: total, MismatchRun: -1}
	var viols []workerViolation
	trouble := false
	shrunkClass := map[string]bool{}
	for w := range outs {
		o := outs[w]
		if o.err != "" {
			fmt.Fprintln(os.Stderr, "HARNESS TROUBLE:", o.err)
			trouble = true
		}
		if o.res != nil {
			mergeResult(all, o.res, distinct, states)
			viols = append(viols, o.res.Violations...)
		}
		if o.crash != nil {
			if shrunkClass[o.crash.V.Class()] {
				continue // a failure of this class is already confirmed and reported
			}
			// confirm a process-level failure by re-executing that run alone
			cbin := bin
			if w >= nw {
				cbin = selfPath(true)
			}
			r := runChild(150*time.Second, cbin, "replay-child", o.crash.File, filepath.Join(tmpDir, "confirm.progress"))
			k, _ := crashKind(r)
			batchDependent := false
			if k == "" && r.exit != 1 && o.batchStride > 0 && o.batchFirst < o.crash.Run {
				// the run alone is clean: the failure may depend on process-global
				// state left by the earlier runs of that worker process
				if b, err := os.ReadFile(o.crash.File); err == nil {
					var rf ReplayFile
					if json.Unmarshal(b, &rf) == nil {
						rf.Batch = &struct {
							First  uint64 `json:"first"`
							Stride uint64 `json:"stride"`
						}{o.batchFirst, o.batchStride}
						rf.Note = "process-level failure that depends on process-global state left behind by earlier runs of the same worker process: replay re-executes that process's runs up to the failing one; not minimised"
						writeJSON(o.crash.File, &rf)
						// process-global state such as sync.Pool is not fully owned by
						// the simulator (random drops under -race): up to 3 attempts
						for try := 0; try < 3 && !batchDependent; try++ {
							r = runChild(240*time.Second, cbin, "replay-child", o.crash.File, filepath.Join(tmpDir, "confirm.progress"))
							k, _ = crashKind(r)
							batchDependent = k != "" || r.exit == 1
						}
					}
				}
			}
			if k == "" && r.exit != 1 {
				fmt.Fprintf(os.Stderr, "HARNESS TROUBLE: worker %d died in run %d (%s) but neither the run alone nor its worker's batch reproduces it (exit %d)\n%s\n",
					w, o.crash.Run, o.crash.V.Kind, r.exit, o.crash.V.Detail)
				trouble = true
				continue
			}
			if batchDependent {
				shrunkClass[o.crash.V.Class()] = true
				o.crash.Shrink = "depends on earlier runs of the same worker process (process-global state); replay re-executes the batch; not minimised"
				viols = append(viols, *o.crash)
				continue
			}
			if cl := o.crash.V.Class(); !shrunkClass[cl] {
				// only the first failure of a class is minimised (bounded cost)
				shrunkClass[cl] = true
				o.crash.Shrink = shrinkCrash(cbin, o.crash, tmpDir)
			}
			viols = append(viols, *o.crash)
		}
	}
	for i, h := range all.Harness {
		if i < 5 {
			fmt.Fprintln(os.Stderr, "HARNESS TROUBLE:", oneLine(h, 600))
		}
		trouble = true
	}
	if all.Mismatches > 0 {
		fmt.Fprintf(os.Stderr, "HARNESS TROUBLE: determinism re-check mismatch in %d of %d re-executed runs (first: run %d)\n",
			all.Mismatches, all.Rechecked, all.MismatchRun)
		trouble = true
	}

	// report violations, one line per class
	seen := map[string]bool{}
	nviol := 0
	sort.Slice(viols, func(i, j int) bool { return viols[i].Run < viols[j].Run })
	for _, v := range viols {
		cl := v.V.Class()
		if seen[cl] {
			continue
		}
		seen[cl] = true
		nviol++
		fmt.Printf("VIOLATION property=%s replay=%s\n", prop, v.File)
		fmt.Printf("  class=%s run=%d %s\n  %s\n", cl, v.Run, v.Shrink, oneLine(v.V.Detail, 600))
	}

	wall := time.Since(t0).Seconds()
	ev := map[string]interface{}{
		"property_id": prop,
		"tier":        tier,
		"seed":        int64(seed),
		"level":       cfg.Level,
		"wall_s":      wall,
		"violations":  nviol,
		"assumptions": cfg.Assumptions,
		"coverage": map[string]interface{}{
			"evaluations":               total.Evaluations,
			"distinct_nontrivial":       len(distinct),
			"rule":                      cfg.Rule,
			"samples":                   total.Samples,
			"runs":                      total.Runs,
			"runs_planned":              runs,
			"runs_per_hour":             int64(float64(total.Runs) / wall * 3600),
			"seeds":                     fmt.Sprintf("VERIF_SEED=%d, run seeds splitmix64(VERIF_SEED^fnv(%s)^i) for i in [0,%d)", seed, prop, runs),
			"sim_steps":                 total.Steps,
			"sim_time_note":             "logical time: one step per seam crossing (read, write, visitor event, yield); the library reads no clock",
			"faults_fired":              total.Faults,
			"probes":                    total.Probes,
			"distinct_states":           len(states),
			"components":                cfg.Components,
			"determinism":               map[string]int{"rechecked": all.Rechecked, "mismatches": all.Mismatches},
			"known_findings_reproduced": knownReproduced,
			"wall_cap_hit":              all.CapHit,
			"workers":                   nw,
			"race_phase_runs":           racePhaseRuns,
			"engine":                    cfg.EngineName,
		},
	}
	os.MkdirAll(filepath.Join(verifDir, "evidence"), 0o755)
	if err := writeJSON(filepath.Join(verifDir, "evidence", prop+".json"), ev); err != nil {
		fmt.Fprintln(os.Stderr, "HARNESS TROUBLE: cannot write evidence:", err)
		trouble = true
	}
	fmt.Printf("done property=%s runs=%d evaluations=%d distinct_nontrivial=%d steps=%d violations=%d wall=%.1fs cap_hit=%v\n",
		prop, total.Runs, total.Evaluations, len(distinct), total.Steps, nviol, wall, all.CapHit)
	if nviol > 0 {
		return 1
	}
	if trouble {
		return 2
	}
	if total.Runs == 0 {
		fmt.Fprintln(os.Stderr, "HARNESS TROUBLE: no run executed")
		return 2
	}
	return 0
}

func oneLine(s string, n int) string {
	s = strings.ReplaceAll(s, "\n", " | ")
	if len(s) > n {
		s = s[:n] + "…"
	}
	return s
}

func keysOf(m map[uint64]struct{}) []uint64 {
	out := make([]uint64, 0, len(m))
	for k := range m {
		out = append(out, k)
	}
	return out
}

func mergeResult(dst, src *workerResult, distinct, states map[uint64]struct{}) {
	d, s := dst.Stats, src.Stats
	d.Evaluations += s.Evaluations
	d.Runs += s.Runs
	d.Steps += s.Steps
	for k, v := range s.Faults {
		d.Faults[k] += v
	}
	for k, v := range s.Probes {
		d.Probes[k] += v
	}
	for _, x := range s.Samples {
		if len(d.Samples) < d.MaxSamples {
			d.Samples = append(d.Samples, x)
		}
	}
	for _, k := range src.Distinct {
		distinct[k] = struct{}{}
	}
	for _, k := range src.States {
		states[k] = struct{}{}
	}
	dst.Violations = append(dst.Violations, src.Violations...)
	dst.Harness = append(dst.Harness, src.Harness...)
	dst.RunsDone += src.RunsDone
	dst.CapHit = dst.CapHit || src.CapHit
	dst.Rechecked += src.Rechecked
	dst.Mismatches += src.Mismatches
	if dst.MismatchRun < 0 {
		dst.MismatchRun = src.MismatchRun
	}
}

// replayDriver re-executes a replay file in a fresh child process.
func replayDriver(args []string) int {
	if len(args) < 1 {
		usage()
	}
	path := args[0]
	b, err := os.ReadFile(path)
	if err != nil {
		fmt.Fprintln(os.Stderr, err)
		return 2
	}
	var rf ReplayFile
	if err := json.Unmarshal(b, &rf); err != nil {
		fmt.Fprintln(os.Stderr, err)
		return 2
	}
	cfg := registry[rf.Property]
	if cfg == nil {
		fmt.Fprintf(os.Stderr, "unknown property %s\n", rf.Property)
		return 2
	}
	tmp := filepath.Join(verifDir, ".build", fmt.Sprintf("replay-%d.progress", os.Getpid()))
	defer os.Remove(tmp)
	r := runChild(150*time.Second, selfPath(cfg.Race || rf.Race), "replay-child", path, tmp)
	os.Stdout.Write(r.stdout)
	if r.exit == 1 {
		fmt.Printf("VIOLATION property=%s replay=%s\n", rf.Property, path)
		return 1
	}
	if k, site := crashKind(r); k != "" {
		fmt.Printf("REPLAY-VIOLATION property=%s class=%s@%s\n%s\n", rf.Property, k, site, tailStr(r.stderr, 3000))
		fmt.Printf("VIOLATION property=%s replay=%s\n", rf.Property, path)
		return 1
	}
	if r.exit == 0 {
		return 0
	}
	fmt.Fprintf(os.Stderr, "harness trouble: exit %d\n%s\n", r.exit, tailStr(r.stderr, 3000))
	return 2
}

// shrinkCrash minimises a process-level failure (hang, fatal error, race
// report) with child processes: the trace of the failing run is captured
// through the choice sink, then shrunk while a fresh child process still fails
// with the same kind. Bounded by attempts and wall time.
func shrinkCrash(bin string, wv *workerViolation, tmpDir string) string {
	b, err := os.ReadFile(wv.File)
	if err != nil {
		return ""
	}
	var rf ReplayFile
	if json.Unmarshal(b, &rf) != nil {
		return ""
	}
	kind := wv.V.Kind
	os.Setenv("VERIF_HANG_S", "4")
	defer os.Unsetenv("VERIF_HANG_S")
	traceFile := filepath.Join(tmpDir, "crash.trace")
	cand := filepath.Join(tmpDir, "crash-cand.json")
	prog := filepath.Join(tmpDir, "crash.progress")
	fails := func(rf *ReplayFile, traceOut string) bool {
		writeJSON(cand, rf)
		args := []string{"replay-child", cand, prog}
		if traceOut != "" {
			args = append(args, traceOut)
		}
		r := runChild(45*time.Second, bin, args...)
		k, _ := crashKind(r)
		return k == kind
	}
	// 1. capture the trace of the failing run
	os.Remove(traceFile)
	if !fails(&rf, traceFile) {
		return "not minimised (the failure did not recur while capturing its trace)"
	}
	tb, _ := os.ReadFile(traceFile)
	var trace []uint64
	for _, l := range strings.Split(string(tb), "\n") {
		if v, err := strconv.ParseUint(strings.TrimSpace(l), 10, 64); err == nil {
			trace = append(trace, v)
		}
	}
	if len(trace) == 0 {
		return "not minimised (empty trace)"
	}
	start := time.Now()
	budget, limit := 150, 90*time.Second
	if kind == "hang" {
		budget, limit = 12, 60*time.Second // every reproducing attempt costs a watchdog period
	}
	min, attempts := simkit.Shrink(trace, budget, func(t []uint64) (bool, []uint64) {
		if time.Since(start) > limit {
			return false, nil
		}
		c := rf
		c.Trace = t
		if c.Trace == nil {
			c.Trace = []uint64{}
		}
		if fails(&c, "") {
			return true, t
		}
		return false, nil
	})
	rf.Trace = min
	if rf.Trace == nil {
		rf.Trace = []uint64{}
	}
	if !fails(&rf, "") {
		return "not minimised (minimised trace did not fail again)"
	}
	rf.Shrink = fmt.Sprintf("process-level failure minimised with child processes: trace %d -> %d choices in %d attempts", len(trace), len(min), attempts)
	rf.Note = "process-level failure (" + kind + "); the scenario is regenerated from the trace"
	writeJSON(wv.File, &rf)
	return rf.Shrink
}
