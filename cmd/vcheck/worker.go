package main

import (
	"encoding/binary"
	"encoding/json"
	"fmt"
	"os"
	"runtime/debug"
	"strconv"
	"strings"
	"sync/atomic"
	"syscall"
	"time"
	"unsafe"
	"verif/model"

	"verif/simkit"
)

// ReplayFile is the on-disk form of a failing (or canonical) run.
type ReplayFile struct {
	Property  string          `json:"property"`
	VerifSeed uint64          `json:"verif_seed"`
	Run       uint64          `json:"run"`
	Thorough  bool            `json:"thorough"`
	Trace     []uint64        `json:"trace"`                       // nil => generate from (verif_seed, run)
	Explicit  json.RawMessage `json:"explicit_scenario,omitempty"` // if set: executed directly, no generator involved
	Skip      []string        `json:"skip,omitempty"`
	Race      bool            `json:"race_build,omitempty"` // found by (and to be replayed with) the -race build
	// Batch: the failure depends on process-global state left behind by earlier
	// runs of the same worker process; replay re-executes runs
	// first, first+stride, ... up to Run in one process.
	Batch *struct {
		First  uint64 `json:"first"`
		Stride uint64 `json:"stride"`
	} `json:"batch,omitempty"`
	Violation *simkit.Violation `json:"violation,omitempty"`
	Shrink    string            `json:"shrink,omitempty"`
	Note      string            `json:"note,omitempty"`
}

type workerResult struct {
	Worker      int               `json:"worker"`
	Stats       *simkit.Stats     `json:"stats"`
	Distinct    []uint64          `json:"distinct"`
	States      []uint64          `json:"states"`
	Violations  []workerViolation `json:"violations"`
	RunsDone    int64             `json:"runs_done"`
	CapHit      bool              `json:"cap_hit"`
	Rechecked   int               `json:"rechecked"`
	Mismatches  int               `json:"mismatches"`
	MismatchRun int64             `json:"mismatch_run"`
	Digests     map[string]uint64 `json:"digests,omitempty"` // run -> digest (selftest)
	Harness     []string          `json:"harness,omitempty"` // trouble of the harness itself (never a violation)
}

type workerViolation struct {
	Run    uint64            `json:"run"`
	File   string            `json:"file"`
	V      *simkit.Violation `json:"violation"`
	Shrink string            `json:"shrink"`
}

// progress word: [0]=run index+1 currently executing, [1]=heartbeat counter
type progress struct{ mem []byte }

func openProgress(path string) (*progress, error) {
	f, err := os.OpenFile(path, os.O_RDWR|os.O_CREATE|os.O_TRUNC, 0o644)
	if err != nil {
		return nil, err
	}
	defer f.Close()
	if err := f.Truncate(16); err != nil {
		return nil, err
	}
	mem, err := syscall.Mmap(int(f.Fd()), 0, 16, syscall.PROT_READ|syscall.PROT_WRITE, syscall.MAP_SHARED)
	if err != nil {
		return nil, err
	}
	return &progress{mem: mem}, nil
}

func (p *progress) word(i int) *uint64 { return (*uint64)(unsafe.Pointer(&p.mem[8*i])) }
func (p *progress) setRun(run uint64) {
	atomic.StoreUint64(p.word(0), run+1)
	atomic.AddUint64(p.word(1), 1)
}
func (p *progress) beat() { atomic.AddUint64(p.word(1), 1) }

func readProgress(path string) (run int64, ok bool) {
	b, err := os.ReadFile(path)
	if err != nil || len(b) < 8 {
		return 0, false
	}
	v := binary.LittleEndian.Uint64(b[:8])
	if v == 0 {
		return 0, false
	}
	return int64(v - 1), true
}

var hangSeconds = func() time.Duration {
	if s := os.Getenv("VERIF_HANG_S"); s != "" {
		if n, err := strconv.Atoi(s); err == nil && n > 0 {
			return time.Duration(n)
		}
	}
	return 40
}()

// cpuSeconds returns the CPU time (user+system) this process has consumed.
func cpuSeconds() time.Duration {
	var ru syscall.Rusage
	if syscall.Getrusage(syscall.RUSAGE_SELF, &ru) != nil {
		return 0
	}
	return time.Duration(ru.Utime.Nano() + ru.Stime.Nano())
}

// startWatchdog exits the process with status 3 when the heartbeat has not
// moved while the process consumed `limit` of CPU time (a spin in real code
// that has no seam in the loop), or for 8 x limit of wall time (blocked without
// spinning). CPU time, not wall time, so that a machine busy with other work
// does not turn a slow run into a "hang". Clocks are used only here, as a
// backstop; no oracle reads them.
func startWatchdog(p *progress, limit time.Duration) {
	go func() {
		last := atomic.LoadUint64(p.word(1))
		lastMove, lastCPU := time.Now(), cpuSeconds()
		for {
			time.Sleep(500 * time.Millisecond)
			cur := atomic.LoadUint64(p.word(1))
			if cur != last {
				last, lastMove, lastCPU = cur, time.Now(), cpuSeconds()
				continue
			}
			if cpuSeconds()-lastCPU > limit || time.Since(lastMove) > 8*limit {
				run := atomic.LoadUint64(p.word(0))
				fmt.Fprintf(os.Stderr, "WATCHDOG: no progress for %v of CPU time (or %v of wall time) in run %d\n", limit, 8*limit, int64(run)-1)
				if cur := simkit.Current(); cur != nil {
					if b, err := json.Marshal(cur); err == nil {
						fmt.Fprintf(os.Stderr, "WEDGED-SCENARIO: %s\n", b)
					}
				}
				os.Exit(3)
			}
		}
	}()
}

type workerArgs struct {
	Prop     string
	Seed     uint64
	W, NW    int
	Runs     int64
	First    int64 // first run index (for per-process batches)
	Deadline int64 // unix seconds; 0 = none
	Thorough bool
	Progress string
	Skip     []string
	Selftest bool // emit per-run digests
	ASLimit  uint64
	OutDir   string
}

func runDigest(c *simkit.Choices, x *simkit.Ctx, v *simkit.Violation) uint64 {
	d := simkit.NewDigest()
	for _, t := range c.Trace {
		d.Int(int(t))
	}
	d.Int(int(x.Clock))
	d.Int(int(x.Obs))
	if v != nil {
		d.Str(v.Class())
	}
	return d.Sum()
}

func skipMap(s []string) map[string]bool {
	m := map[string]bool{}
	for _, k := range s {
		if k != "" {
			m[k] = true
		}
	}
	return m
}

const traceLimit = 400000

func workerMain(a workerArgs) int {
	cfg := registry[a.Prop]
	if cfg == nil {
		fmt.Fprintf(os.Stderr, "unknown property %s\n", a.Prop)
		return 2
	}
	debug.SetGCPercent(200)
	if a.ASLimit > 0 {
		lim := syscall.Rlimit{Cur: a.ASLimit, Max: a.ASLimit}
		syscall.Setrlimit(syscall.RLIMIT_AS, &lim)
	}
	prog, err := openProgress(a.Progress)
	if err != nil {
		fmt.Fprintf(os.Stderr, "progress file: %v\n", err)
		return 2
	}
	startWatchdog(prog, hangSeconds*time.Second)
	model.Beat = prog.beat

	stats := simkit.NewStats()
	res := &workerResult{Worker: a.W, Stats: stats, MismatchRun: -1}
	if a.Selftest {
		res.Digests = map[string]uint64{}
	}
	skip := skipMap(a.Skip)
	for i := a.First + int64(a.W); i < a.Runs; i += int64(a.NW) {
		if a.Deadline > 0 && res.RunsDone%16 == 0 && time.Now().Unix() >= a.Deadline {
			res.CapHit = true
			break
		}
		prog.setRun(uint64(i))
		seed := simkit.RunSeed(a.Seed, a.Prop, uint64(i))
		c := simkit.NewChoices(seed)
		c.Limit = traceLimit
		x := &simkit.Ctx{Stats: stats, Thorough: a.Thorough, Skip: skip, Beat: prog.beat}
		v := runEngine(cfg, c, x)
		stats.Runs++
		stats.Steps += x.Clock
		res.RunsDone++
		dg := runDigest(c, x, v)
		if a.Selftest {
			res.Digests[fmt.Sprint(i)] = dg
		}
		// determinism re-check on ~2% of the runs (always in selftest mode)
		if v == nil && (a.Selftest || seed%50 == 0) {
			stats.Frozen = true
			c2 := simkit.NewChoices(seed)
			c2.Limit = traceLimit
			x2 := &simkit.Ctx{Stats: stats, Thorough: a.Thorough, Skip: skip, Beat: prog.beat}
			v2 := runEngine(cfg, c2, x2)
			stats.Frozen = false
			res.Rechecked++
			if runDigest(c2, x2, v2) != dg {
				res.Mismatches++
				if res.MismatchRun < 0 {
					res.MismatchRun = i
				}
			}
		}
		if v != nil && v.Kind == "harness" {
			// the harness could not judge this run (reference process failed,
			// trusted base inconsistent): trouble, never a violation
			if len(res.Harness) < 5 {
				res.Harness = append(res.Harness, fmt.Sprintf("run %d: %s: %s", i, v.Site, v.Detail))
			}
			continue
		}
		if v != nil {
			wv := shrinkAndSave(cfg, a, uint64(i), c.Trace, v, prog, stats, skip)
			res.Violations = append(res.Violations, wv)
			break
		}
	}
	res.Distinct = stats.DistinctKeys()
	res.States = stats.StateKeys()
	enc := json.NewEncoder(os.Stdout)
	if err := enc.Encode(res); err != nil {
		fmt.Fprintf(os.Stderr, "encode result: %v\n", err)
		return 2
	}
	return 0
}

func shrinkAndSave(cfg *propCfg, a workerArgs, run uint64, trace []uint64, v *simkit.Violation,
	prog *progress, stats *simkit.Stats, skip map[string]bool) workerViolation {
	class := v.Class()
	stats.Frozen = true
	defer func() { stats.Frozen = false }()
	best := v
	start := time.Now()
	test := func(t []uint64) (bool, []uint64) {
		prog.beat()
		if time.Since(start) > 120*time.Second {
			return false, nil
		}
		c := simkit.ReplayChoices(t)
		c.Limit = traceLimit
		x := &simkit.Ctx{Stats: stats, Thorough: a.Thorough, Skip: skip, Beat: prog.beat}
		nv := runEngine(cfg, c, x)
		if nv != nil && nv.Class() == class && !c.Overflow {
			best = nv
			return true, c.Trace
		}
		return false, nil
	}
	budget := 4000
	if strings.HasSuffix(class, "/free-running") {
		// found on real threads: a re-execution is a retry, minimisation by
		// re-execution would only measure luck
		budget = 0
	}
	min, attempts := simkit.Shrink(trace, budget, test)
	// make sure `best` belongs to the minimised trace
	if ok, _ := test(min); !ok {
		min = trace
		best = v
	}
	rf := &ReplayFile{Property: a.Prop, VerifSeed: a.Seed, Run: run, Thorough: a.Thorough, Trace: min, Skip: a.Skip, Race: simkit.RaceBuild,
		Violation: best, Shrink: fmt.Sprintf("trace %d -> %d choices in %d attempts", len(trace), len(min), attempts)}
	if rf.Trace == nil {
		rf.Trace = []uint64{}
	}
	path := fmt.Sprintf("%s/%s-%d-%d.json", a.OutDir, a.Prop, a.Seed, run)
	writeJSON(path, rf)
	return workerViolation{Run: run, File: path, V: best, Shrink: rf.Shrink}
}

func writeJSON(path string, v interface{}) error {
	b, err := json.MarshalIndent(v, "", " ")
	if err != nil {
		return err
	}
	return os.WriteFile(path, append(b, '\n'), 0o644)
}

// replayMain re-executes one replay file in this process. Exit 1 (and the
// violation on stdout) if the violation reproduces, 0 if the run is clean.
func replayMain(path, progressPath, traceOut string) int {
	b, err := os.ReadFile(path)
	if err != nil {
		fmt.Fprintln(os.Stderr, err)
		return 2
	}
	var rf ReplayFile
	if err := json.Unmarshal(b, &rf); err != nil {
		fmt.Fprintln(os.Stderr, err)
		return 2
	}
	cfg := registry[rf.Property]
	if cfg == nil {
		fmt.Fprintf(os.Stderr, "unknown property %s\n", rf.Property)
		return 2
	}
	prog, err := openProgress(progressPath)
	if err != nil {
		fmt.Fprintln(os.Stderr, err)
		return 2
	}
	prog.setRun(rf.Run)
	startWatchdog(prog, hangSeconds*time.Second)
	model.Beat = prog.beat
	if len(rf.Explicit) > 0 {
		sr, ok := cfg.Engine.(simkit.ScenarioReplayer)
		if !ok {
			fmt.Fprintf(os.Stderr, "engine of %s cannot replay explicit scenarios\n", rf.Property)
			return 2
		}
		v, err := sr.ReplayScenario(rf.Explicit, &simkit.Ctx{Stats: simkit.NewStats(), Thorough: rf.Thorough})
		if err != nil {
			fmt.Fprintln(os.Stderr, err)
			return 2
		}
		if v == nil {
			fmt.Printf("REPLAY-CLEAN property=%s file=%s\n", rf.Property, path)
			return 0
		}
		out, _ := json.MarshalIndent(v, "", " ")
		fmt.Printf("REPLAY-VIOLATION property=%s class=%s\n%s\n", rf.Property, v.Class(), out)
		return 1
	}
	if rf.Batch != nil && rf.Trace == nil && rf.Batch.Stride > 0 {
		// the predecessors of the failing run in its worker process
		for i := rf.Batch.First; i < rf.Run; i += rf.Batch.Stride {
			prog.setRun(i)
			pc := simkit.NewChoices(simkit.RunSeed(rf.VerifSeed, rf.Property, i))
			pc.Limit = traceLimit
			runEngine(cfg, pc, &simkit.Ctx{Stats: simkit.NewStats(), Thorough: rf.Thorough, Skip: skipMap(rf.Skip), Beat: prog.beat})
		}
		prog.setRun(rf.Run)
	}
	var c *simkit.Choices
	if rf.Trace == nil {
		c = simkit.NewChoices(simkit.RunSeed(rf.VerifSeed, rf.Property, rf.Run))
	} else {
		c = simkit.ReplayChoices(rf.Trace)
	}
	c.Limit = traceLimit
	if traceOut != "" {
		// every draw is written at once, so that the trace survives a
		// process-level failure of this run
		if f, err := os.Create(traceOut); err == nil {
			c.Sink = f
		}
	}
	st := simkit.NewStats()
	x := &simkit.Ctx{Stats: st, Thorough: rf.Thorough, Skip: skipMap(rf.Skip), Beat: prog.beat}
	v := runEngine(cfg, c, x)
	if v == nil {
		fmt.Printf("REPLAY-CLEAN property=%s file=%s\n", rf.Property, path)
		return 0
	}
	out, _ := json.MarshalIndent(v, "", " ")
	fmt.Printf("REPLAY-VIOLATION property=%s class=%s\n%s\n", rf.Property, v.Class(), out)
	return 1
}

// runEngine executes one run and adds the one oracle that lives in the seams
// themselves: bytes that were only LENT to the library (the argument of
// OnKeyRef / OnStringRef, the slice passed to Write) must come back unchanged.
// It is reported for the properties that speak about memory the library does
// not own (C14: never writes outside the target; C15: unsafe conversions stay
// valid - a write through a string view); elsewhere the record is discarded.
func runEngine(cfg *propCfg, c *simkit.Choices, x *simkit.Ctx) *simkit.Violation {
	simkit.TakeInputModified()
	v := cfg.Engine.Run(c, x)
	if m := simkit.TakeInputModified(); m != "" && v == nil && (cfg.EngineName == "abandon" || cfg.EngineName == "alias") {
		v = &simkit.Violation{Kind: "input-modified", Site: cfg.EngineName, Detail: m, Scenario: simkit.Current()}
	}
	return v
}
