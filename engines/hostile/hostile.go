// Package hostile decides C03: on arbitrary bytes, delivered in any chunking,
// parsers and pull decoders neither panic nor spin nor allocate out of
// proportion, and a stream that ends inside a value is an error for every
// entry point that knows where the input ends.
package hostile

import (
	"encoding/hex"
	"encoding/json"
	"fmt"
	"io"
	"runtime"
	"runtime/debug"
	"runtime/metrics"
	"sort"
	"sync"
	"syscall"
	"time"

	"verif/engines/common"
	"verif/model"
	"verif/simkit"
)

type Scenario struct {
	Format      string         `json:"format"`
	Base        string         `json:"base_doc_hex,omitempty"`
	Faults      []common.Fault `json:"faults,omitempty"`
	Doc         string         `json:"doc_hex"`
	Entry       string         `json:"entry"`
	Cuts        []int          `json:"cuts,omitempty"`
	Reads       []int          `json:"read_sizes,omitempty"`
	BufSize     int            `json:"bufsize,omitempty"`
	EOFWithData bool           `json:"eof_with_data,omitempty"`
	TruncatedIn string         `json:"truncated_inside_value,omitempty"`
	ReaderKind  int            `json:"reader_kind,omitempty"` // simkit.AsReader
}

type Engine struct{}

// Predicates of open known findings this engine can steer around.
const SkipUBPayloadless = "ubjson-typed-container-of-payloadless-type"

var allocSample = []metrics.Sample{{Name: "/gc/heap/allocs:bytes"}}

func allocBytes() uint64 {
	metrics.Read(allocSample)
	return allocSample[0].Value.Uint64()
}

var entries = []string{"parse", "parsestring", "write", "reader", "decoder-bytes", "decoder-reader"}

type result struct {
	err    error
	panic  *simkit.PanicInfo
	events int
	alloc  uint64
	stuck  bool
	nexts  int
}

// exec delivers data through one entry point under the given schedule; the
// consumer is a non-recording sink so that allocation can be measured.
func exec(cd *common.Codec, sc *Scenario, data []byte, x *simkit.Ctx) *result {
	return execM(cd, sc, data, x, allocBytes)
}

// exactAlloc flushes the per-P allocation caches (stop-the-world), so it is
// exact but far too slow to wrap every execution.
func exactAlloc() uint64 {
	var ms runtime.MemStats
	runtime.ReadMemStats(&ms)
	return ms.TotalAlloc
}

func execM(cd *common.Codec, sc *Scenario, data []byte, x *simkit.Ctx, allocBytes func() uint64) *result {
	simkit.SetCurrent(sc)
	x.Alive()
	t := simkit.NewTap(nil)
	t.NoRecord = true
	t.Clock = &x.Clock
	r := &result{}
	buf := simkit.Exact(data)
	str := string(data)
	if sc.Entry == "parsestring" {
		// a string constant: read-only memory (simkit.ReadOnlyString)
		if ro, ok := simkit.ReadOnlyString(data); ok {
			str = ro
			x.Stats.Fault("input-string-in-read-only-memory")
		}
	}
	a0 := allocBytes()
	r.panic = simkit.Guard(func() {
		if sc.Entry == "parsestring" {
			defer debug.SetPanicOnFault(debug.SetPanicOnFault(true))
		}
		switch sc.Entry {
		case "parse":
			r.err = cd.Parse(buf, t)
		case "parsestring":
			r.err = cd.ParseString(str, t)
		case "write":
			_, r.err = simkit.Feed(cd.NewParser(t), buf, sc.Cuts, true, &x.Clock)
		case "write-then-parse":
			// the head through Write, the rest - and with it the end of the
			// input - through Parse / ParseString on the SAME parser (cborl and
			// ubjson keep their state between calls; this is how a Write-driven
			// parse is told that the input has ended)
			p := cd.NewParser(t)
			cut := len(buf) / 2
			if len(sc.Cuts) > 0 && sc.Cuts[0] <= len(buf) {
				cut = sc.Cuts[0]
			}
			if _, r.err = simkit.Feed(p, buf[:cut], nil, false, &x.Clock); r.err == nil {
				pm := p.(interface {
					Parse([]byte) error
					ParseString(string) error
				})
				if len(sc.Cuts)%2 == 0 {
					r.err = pm.Parse(buf[cut:])
				} else {
					r.err = pm.ParseString(string(buf[cut:]))
				}
			}
		case "reader":
			rd := &simkit.Reader{Data: buf, Sizes: sc.Reads, EOFWithData: sc.EOFWithData, Clock: &x.Clock}
			_, r.err = cd.ParseReader(simkit.AsReader(sc.ReaderKind, rd), t)
		case "decoder-bytes", "decoder-reader":
			var dec common.Decoder
			var rd *simkit.Reader
			if sc.Entry == "decoder-bytes" {
				dec = cd.NewBytesDecoder(buf, t)
			} else {
				rd = &simkit.Reader{Data: buf, Sizes: sc.Reads, EOFWithData: sc.EOFWithData, Clock: &x.Clock}
				dec = cd.NewDecoder(simkit.AsReader(sc.ReaderKind, rd), sc.BufSize, t)
			}
			// a caller loops until the first error; every successful Next
			// must have consumed input or delivered events, so the loop is
			// bounded by the input length
			limit := 2*len(buf) + 8
			for r.nexts = 0; ; r.nexts++ {
				before := t.Count
				if r.err = dec.Next(); r.err != nil {
					break
				}
				if rd != nil && rd.Stuck {
					r.stuck = true
					break
				}
				if r.nexts > limit {
					r.stuck = true
					break
				}
				_ = before
			}
			if rd != nil && rd.Stuck {
				r.stuck = true
			}
			// a caller that logs the error and calls Next again (a retry loop)
			// must get an answer - any answer - not a panic and not a spin
			if r.err != nil && !r.stuck {
				first := r.err
				for i := 0; i < 2; i++ {
					dec.Next()
				}
				r.err = first
			}
		}
	})
	r.alloc = allocBytes() - a0
	r.events = t.Count
	return r
}

func (Engine) Run(c *simkit.Choices, x *simkit.Ctx) *simkit.Violation {
	// (for every run of this engine alike, so that a run behaves the same alone
	// and after other runs of its worker process; see stackBomb)
	lowerStackOnce.Do(func() { debug.SetMaxStack(64 << 20) })
	st := x.Stats
	f := model.Formats[c.N(3)]
	cd := common.ByName(f)
	o := model.QuickOpts()
	if x.Thorough && c.N(4) == 0 {
		o = model.ThoroughOpts()
		o.Budget = 30
	}
	nvals := 1 + c.N(3)
	doc := common.GenDoc(c, f, o, nvals)

	if c.N(3) == 0 {
		return truncation(c, x, cd, f, doc)
	}
	if c.N(250) == 0 {
		return scaling(c, x, cd, f)
	}
	if c.N(1500) == 0 {
		return memScaling(c, x, cd, f)
	}
	if c.N(1000) == 0 {
		return stackBomb(c, x, cd, f)
	}

	// hostile inputs derived from this document
	ninputs := 6 + c.N(10)
	for i := 0; i < ninputs; i++ {
		var data []byte
		var faults []common.Fault
		switch c.N(8) {
		case 0: // pure random bytes
			n := c.Small(64)
			data = make([]byte, n)
			for j := range data {
				data[j] = byte(c.N(256))
			}
			st.Fault("random-bytes")
		case 2: // nesting bomb: beyond the parsers' pre-allocated stacks
			if c.N(3) == 0 {
				data = common.NestBomb(c, f)
				faults = []common.Fault{{Kind: "nest-bomb", Arg: len(data)}}
				st.Fault("nest-bomb")
			} else {
				data, faults = common.Corrupt(c, doc, 1+c.N(4), st)
			}
		case 1: // splice: head of the document followed by the tail of itself at another offset
			if len(doc.Bytes) > 1 {
				a, b := c.N(len(doc.Bytes)), c.N(len(doc.Bytes))
				data = append(simkit.Exact(doc.Bytes[:a]), doc.Bytes[b:]...)
				faults = []common.Fault{{Kind: "splice", Pos: a, Arg: b}}
				st.Fault("corrupt-splice")
			}
		default:
			data, faults = common.Corrupt(c, doc, 1+c.N(4), st)
		}
		if x.Skip[SkipUBPayloadless] && f == model.UBJSON && common.HasPayloadlessTyped(data) {
			st.Probe("steered-around-" + SkipUBPayloadless)
			continue
		}
		// deliver through 2-3 entry points / schedules
		for k, n := 0, 2+c.N(2); k < n; k++ {
			sc := &Scenario{Format: string(f), Base: hex.EncodeToString(doc.Bytes), Faults: faults, Doc: hex.EncodeToString(data)}
			sc.Entry = entries[c.N(len(entries))]
			if f != model.JSON && c.N(7) == 0 {
				sc.Entry = "write-then-parse"
				sc.Cuts = drawCuts(c, len(data))
			}
			switch sc.Entry {
			case "write":
				sc.Cuts = drawCuts(c, len(data))
			case "reader", "decoder-reader":
				sc.Reads = drawReads(c, len(data))
				sc.EOFWithData = c.Bool()
				sc.BufSize = common.DrawBufSize(c)
				if c.N(3) == 0 {
					sc.ReaderKind = 1 + c.N(simkit.NumReaderKinds-1)
				}
				st.Fault("short-read")
			}
			st.Eval(1)
			st.Distinct(simkit.NewDigest().Bytes(data).Str(sc.Entry).Ints(sc.Cuts).Ints(sc.Reads).Int(sc.BufSize).Sum())
			r := exec(cd, sc, data, x)
			if v := judge(f, sc, data, r, cd, x); v != nil {
				return v
			}
			if r.err != nil && r.err != io.EOF {
				st.Probe("rejected")
			} else {
				st.Probe("accepted")
			}
		}
	}
	st.Sample(map[string]interface{}{"format": f, "base_doc_hex": trunc(hex.EncodeToString(doc.Bytes), 100), "hostile_inputs": ninputs})
	return nil
}

func judge(f model.Format, sc *Scenario, data []byte, r *result, cd *common.Codec, x *simkit.Ctx) *simkit.Violation {
	site := string(f) + "/" + sc.Entry
	if r.panic != nil {
		return &simkit.Violation{Kind: "panic", Site: string(f) + r.panic.Site, // entry-independent: same defect whatever the entry point
			Detail: fmt.Sprintf("%s: %s\n%s", sc.Entry, r.panic.Value, r.panic.Stack), Scenario: sc}
	}
	if r.stuck {
		return &simkit.Violation{Kind: "no-progress", Site: site,
			Detail: fmt.Sprintf("decoder loop made no progress: %d successful Next calls on %d bytes / reader polled with an empty buffer", r.nexts, len(data)), Scenario: sc}
	}
	if r.events > 8*len(data)+16 {
		return &simkit.Violation{Kind: "event-flood", Site: site,
			Detail: fmt.Sprintf("%d events from %d input bytes", r.events, len(data)), Scenario: sc}
	}
	if lim := uint64(1<<20 + 64*len(data)); r.alloc > lim {
		// the cheap counter attributes small-object spans late; confirm with
		// an exact (stop-the-world) measurement of the same scenario
		var clk simkit.Ctx
		clk.Stats = x.Stats
		r2 := execM(cd, sc, data, &clk, exactAlloc)
		if r2.alloc > lim {
			return &simkit.Violation{Kind: "alloc", Site: site,
				Detail: fmt.Sprintf("%d bytes allocated while parsing %d input bytes (bound %d)", r2.alloc, len(data), lim), Scenario: sc}
		}
		x.Stats.Probe("alloc-counter-noise-filtered")
	}
	return nil
}

// threadCPU returns the CPU time consumed by the calling OS thread.
func threadCPU() time.Duration {
	var ru syscall.Rusage
	syscall.Getrusage(1 /* RUSAGE_THREAD */, &ru)
	return time.Duration(ru.Utime.Nano() + ru.Stime.Nano())
}

// scalingPatterns are monotonous inputs on which a per-byte cost that depends
// on what was buffered so far turns into quadratic time.
func scalingPattern(c *simkit.Choices, f model.Format, n int) ([]byte, string) {
	rep := func(head string, unit string, tail string) []byte {
		b := []byte(head)
		for len(b) < n {
			b = append(b, unit...)
		}
		return append(b, tail...)
	}
	switch f {
	case model.JSON:
		switch c.N(8) {
		case 0:
			return rep(`"`, `\\\\`, `"`), "json string of backslashes"
		case 1:
			return rep(`"`, `a`, `"`), "json long plain string"
		case 2:
			return rep(`"`, `\u00e9`, `"`), "json string of \\u escapes"
		case 3:
			return rep(``, `1`, ` `), "json long number"
		case 4:
			return rep(``, `[`, ``), "json nesting"
		case 5:
			return rep(`[`, ` `, `]`), "json whitespace run"
		case 6:
			return rep(`{"`, `k`, `":1}`), "json long key"
		default:
			return rep(`[`, `1,`, `1]`), "json many elements"
		}
	case model.CBOR:
		switch c.N(4) {
		case 0:
			return rep(``, "\x81", "\x01"), "cbor nesting"
		case 1:
			b := []byte{0x7a, byte(n >> 24), byte(n >> 16), byte(n >> 8), byte(n)}
			return append(b, make([]byte, n)...), "cbor long text"
		case 2:
			return rep("\x9f", "\x01", "\xff"), "cbor many elements"
		default:
			b := []byte{0x5a, byte(n >> 24), byte(n >> 16), byte(n >> 8), byte(n)}
			return append(b, make([]byte, n)...), "cbor long byte string"
		}
	default:
		switch c.N(4) {
		case 0:
			return rep(``, "[", ``), "ubjson nesting"
		case 1:
			b := []byte{'S', 'l', byte(n >> 24), byte(n >> 16), byte(n >> 8), byte(n)}
			return append(b, make([]byte, n)...), "ubjson long string"
		case 2:
			return rep("[", "N", "]"), "ubjson no-ops"
		default:
			return rep("[", "i\x01", "]"), "ubjson many elements"
		}
	}
}

// scaling: the same monotonous input at size N and 4N, delivered in tiny
// chunks, must cost about 4x the thread CPU time, not 16x. This is the one
// place where a clock is an oracle (the property speaks of time proportional
// to the input): thread CPU time, a ratio with an absolute floor, and three
// confirmations before anything is reported.
func scaling(c *simkit.Choices, x *simkit.Ctx, cd *common.Codec, f model.Format) *simkit.Violation {
	st := x.Stats
	patSeed := c.N(1 << 20)
	entry := []string{"write", "decoder-reader"}[c.N(2)]
	chunk := 1 + c.N(3)
	measure := func(n int) (time.Duration, string, int) {
		data, name := scalingPattern(simkit.ReplayChoices([]uint64{uint64(patSeed % 8)}), f, n)
		sc := &Scenario{Format: string(f), Doc: fmt.Sprintf("(%s, %d bytes)", name, len(data)), Entry: entry, BufSize: chunk, Reads: []int{chunk}}
		var cuts []int
		for p := chunk; p < len(data); p += chunk {
			cuts = append(cuts, p)
		}
		sc.Cuts = nil
		simkit.SetCurrent(sc)
		x.Alive()
		t := simkit.NewTap(nil)
		t.NoRecord = true
		runtime.LockOSThread()
		t0 := threadCPU()
		simkit.Guard(func() {
			if entry == "write" {
				simkit.Feed(cd.NewParser(t), data, cuts, false, nil)
			} else {
				dec := cd.NewDecoder(&simkit.Reader{Data: data, Sizes: []int{chunk}}, chunk, t)
				for i := 0; i < len(data)+8; i++ {
					if dec.Next() != nil {
						break
					}
				}
			}
		})
		d := threadCPU() - t0
		runtime.UnlockOSThread()
		return d, name, len(data)
	}
	const n1, n2 = 64 << 10, 256 << 10
	st.Eval(2)
	st.Fault("tiny-chunks-on-monotonous-input")
	t1, name, _ := measure(n1)
	t2, _, len2 := measure(n2)
	st.Distinct(simkit.NewDigest().Str("scaling" + string(f) + name + entry).Int(chunk).Sum())
	bad := func(t1, t2 time.Duration) bool { return t2 > 150*time.Millisecond && t2 > 10*t1 }
	if !bad(t1, t2) {
		st.Probe("scaling-linear")
		return nil
	}
	for i := 0; i < 3; i++ { // confirm: all repetitions must show it
		a, _, _ := measure(n1)
		b, _, _ := measure(n2)
		if !bad(a, b) {
			st.Probe("scaling-outlier-not-confirmed")
			return nil
		}
		t1, t2 = a, b
	}
	return &simkit.Violation{Kind: "superlinear-time", Site: string(f) + "/" + entry + "/" + name,
		Detail: fmt.Sprintf("%s in %d-byte chunks: %d bytes take %v of CPU time, %d bytes take %v (x%.1f for 4x the input; confirmed 3 times)",
			name, chunk, n1, t1, len2, t2, float64(t2)/float64(t1+1)),
		Scenario: &Scenario{Format: string(f), Doc: fmt.Sprintf("(%s, %d and %d bytes)", name, n1, n2), Entry: entry, BufSize: chunk}}
}

var lowerStackOnce sync.Once

// stackBomb: 2^20 or 2^21 levels of nesting (1-8 MiB of input), closed all at
// once or not at all. A parser whose work per closing level is a function call
// deeper dies of a fatal, unrecoverable stack overflow once the nesting is deep
// enough; with Go's default limit (1 GB) that takes inputs of tens of MiB. The
// worker lowers the limit to 64 MiB (debug.SetMaxStack) so that the same
// recursion shows with 1/16 of the input: a parser with bounded stack use per
// input byte never notices either limit.
func stackBomb(c *simkit.Choices, x *simkit.Ctx, cd *common.Codec, f model.Format) *simkit.Violation {
	st := x.Stats
	n := []int{1 << 20, 1 << 21}[c.N(2)]
	data := common.NestBombN(c, f, n)
	sc := &Scenario{Format: string(f), Doc: fmt.Sprintf("(nest bomb: %d levels, %d bytes, starts %x, ends %x)", n, len(data), data[:8], data[len(data)-4:]),
		Faults: []common.Fault{{Kind: "nest-bomb", Arg: n}}}
	sc.Entry = []string{"parse", "write", "decoder-bytes"}[c.N(3)]
	if sc.Entry == "write" {
		for p := 1 << 16; p < len(data); p += 1 << 16 {
			sc.Cuts = append(sc.Cuts, p)
		}
	}
	simkit.SetCurrent(sc)
	x.Alive()
	st.Eval(1)
	st.Fault("nest-bomb-million-levels")
	st.Distinct(simkit.NewDigest().Str("stackbomb" + string(f) + sc.Entry).Int(n).Bytes(data[:8]).Int(len(data)).Sum())
	r := exec(cd, sc, data, x)
	x.Alive()
	return judge(f, sc, data, r, cd, x)
}

// memScaling: one monotonous token of 4 MiB and of 8 MiB, delivered in 32 KiB
// pieces, must make the parser allocate about twice as much for twice the
// input. A growth policy that stops doubling (fixed increments beyond some
// size) is linear up to that size and quadratic after it, which only shows
// out here. Allocation (exact, from the runtime's counters), not time.
func memScaling(c *simkit.Choices, x *simkit.Ctx, cd *common.Codec, f model.Format) *simkit.Violation {
	st := x.Stats
	pat := c.N(8)
	entry := []string{"write", "decoder-reader"}[c.N(2)]
	chunk := []int{32 << 10, 64 << 10, 4096, 100000}[c.N(4)]
	measure := func(n int) (uint64, string, int) {
		data, name := scalingPattern(simkit.ReplayChoices([]uint64{uint64(pat)}), f, n)
		sc := &Scenario{Format: string(f), Doc: fmt.Sprintf("(%s, %d bytes)", name, len(data)), Entry: entry, BufSize: chunk, Reads: []int{chunk}}
		var cuts []int
		for p := chunk; p < len(data); p += chunk {
			cuts = append(cuts, p)
		}
		simkit.SetCurrent(sc)
		x.Alive()
		t := simkit.NewTap(nil)
		t.NoRecord = true
		a0 := exactAlloc()
		simkit.Guard(func() {
			if entry == "write" {
				simkit.Feed(cd.NewParser(t), data, cuts, false, nil)
			} else {
				dec := cd.NewDecoder(&simkit.Reader{Data: data, Sizes: []int{chunk}}, chunk, t)
				for i := 0; i < 4; i++ {
					if dec.Next() != nil {
						break
					}
				}
			}
		})
		a := exactAlloc() - a0
		x.Alive()
		return a, name, len(data)
	}
	const n1, n2 = 4 << 20, 8 << 20
	st.Eval(2)
	st.Fault("mib-sized-token-in-chunks")
	a1, name, _ := measure(n1)
	a2, _, len2 := measure(n2)
	st.Distinct(simkit.NewDigest().Str("memscaling" + string(f) + name + entry).Int(chunk).Sum())
	// (the scratch buffer of the simulated sender is part of both measurements: one chunk)
	if a2 > 16*uint64(len2) && a2 > 3*a1 {
		return &simkit.Violation{Kind: "superlinear-memory", Site: string(f) + "/" + entry + "/" + name,
			Detail: fmt.Sprintf("%s in %d-byte pieces: %d bytes of input make the parser allocate %d bytes, %d bytes of input %d bytes (x%.1f for twice the input, %.0f times the input)",
				name, chunk, n1, a1, len2, a2, float64(a2)/float64(a1+1), float64(a2)/float64(len2)),
			Scenario: &Scenario{Format: string(f), Doc: fmt.Sprintf("(%s, %d and %d bytes)", name, n1, n2), Entry: entry, BufSize: chunk}}
	}
	st.Probe("memory-scaling-linear")
	return nil
}

// truncation: every strict prefix of a valid stream that ends inside a value
// must be reported as an error by the entry points that know the end.
// foreignCBOR are complete, well-formed RFC 8949 data items that use features
// outside the library's subset (tags, half floats, simple values, indefinite
// strings). Whether the library accepts or refuses them is not this engine's
// business - but an input that ENDS inside one of them ends inside a value.
var foreignCBOR = [][]byte{
	{0xc0, 0x61, 'a'}, {0xc1, 0x01}, {0xd8, 0x20, 0x61, 'u'}, {0xd9, 0xd9, 0xf7, 0x81, 0x00},
	{0xda, 0x00, 0x01, 0x00, 0x00, 0x01}, {0xdb, 0, 0, 0, 1, 0, 0, 0, 0, 0x01}, {0xc2, 0x42, 0x01, 0x00}, {0xc1, 0xc2, 0x41, 0x00},
	{0xd8, 0x18, 0x43, 0x82, 0x01, 0x02}, {0xc0, 0x81, 0xc1, 0x00},
	{0xf9, 0x3c, 0x00}, {0xf9, 0x80, 0x00}, {0xf9, 0x7e, 0x00}, {0xf8, 0x20}, {0xf8, 0xff},
	{0x5f, 0x41, 0x00, 0xff}, {0x7f, 0x61, 'a', 0x61, 'b', 0xff}, {0x9f, 0xc0, 0x01, 0xff}, {0xa1, 0x61, 'k', 0xc0, 0x01},
}

func appendForeignCBOR(c *simkit.Choices, doc *model.Doc) *model.Doc {
	out := &model.Doc{Format: doc.Format, Bytes: append([]byte{}, doc.Bytes...), Values: append([][2]int{}, doc.Values...),
		OpenEnd: append([]bool{}, doc.OpenEnd...)}
	item := foreignCBOR[c.N(len(foreignCBOR))]
	s := len(out.Bytes)
	out.Bytes = append(out.Bytes, item...)
	out.Values = append(out.Values, [2]int{s, len(out.Bytes)})
	out.OpenEnd = append(out.OpenEnd, false)
	return out
}

func truncation(c *simkit.Choices, x *simkit.Ctx, cd *common.Codec, f model.Format, doc *model.Doc) *simkit.Violation {
	st := x.Stats
	if f == model.CBOR && c.N(2) == 0 {
		doc = appendForeignCBOR(c, doc)
		st.Probe("foreign-cbor-item-appended")
	}
	var cands []int
	inside := map[int]int{}
	for j, sp := range doc.Values {
		if doc.OpenEnd[j] {
			continue
		}
		for at := sp[0] + 1; at < sp[1]; at++ {
			cands = append(cands, at)
			inside[at] = j
		}
	}
	if len(cands) == 0 {
		return nil
	}
	// all prefixes for small documents, a seeded sample otherwise
	if len(cands) > 96 {
		pick := map[int]bool{}
		for i := 0; i < 96; i++ { // bounded: a replayed all-zero trace must terminate
			pick[cands[c.N(len(cands))]] = true
		}
		cands = cands[:0]
		for at := range pick {
			cands = append(cands, at)
		}
		sort.Ints(cands)
	}
	for _, at := range cands {
		data := doc.Bytes[:at]
		tentries := []string{"parse", "parsestring", "reader", "decoder-bytes", "decoder-reader"}
		if f != model.JSON {
			tentries = append(tentries, "write-then-parse")
		}
		for _, entry := range tentries {
			sc := &Scenario{Format: string(f), Base: hex.EncodeToString(doc.Bytes), Doc: hex.EncodeToString(data), Entry: entry,
				Faults:      []common.Fault{{Kind: "truncate", Pos: at}},
				TruncatedIn: fmt.Sprintf("value %d spanning [%d,%d)", inside[at], doc.Values[inside[at]][0], doc.Values[inside[at]][1])}
			if entry == "write-then-parse" {
				sc.Cuts = []int{c.N(len(data) + 1)}
				if c.Bool() {
					sc.Cuts = append(sc.Cuts, len(data)) // (parity selects ParseString)
				}
			}
			if entry == "reader" || entry == "decoder-reader" {
				sc.Reads = drawReads(c, len(data))
				sc.EOFWithData = c.Bool()
				sc.BufSize = common.DrawBufSize(c)
				if c.N(2) == 0 {
					sc.ReaderKind = 1 + c.N(simkit.NumReaderKinds-1)
				}
			}
			st.Eval(1)
			st.Fault("truncate")
			st.Distinct(simkit.NewDigest().Bytes(data).Str(entry).Ints(sc.Reads).Int(sc.BufSize).Sum())
			r := exec(cd, sc, data, x)
			if v := judge(f, sc, data, r, cd, x); v != nil {
				return v
			}
			if r.err == nil || r.err == io.EOF {
				return &simkit.Violation{Kind: "truncation-accepted", Site: string(f) + "/" + entry,
					Detail:   fmt.Sprintf("input ends at offset %d inside %s, but %s returned %v", at, sc.TruncatedIn, entry, r.err),
					Scenario: sc}
			}
		}
	}
	st.Sample(map[string]interface{}{"format": f, "valid_stream_hex": trunc(hex.EncodeToString(doc.Bytes), 100), "prefixes_checked": len(cands)})
	return nil
}

// ReplayScenario re-executes an explicit scenario record.
func (Engine) ReplayScenario(raw []byte, x *simkit.Ctx) (*simkit.Violation, error) {
	var sc Scenario
	if err := json.Unmarshal(raw, &sc); err != nil {
		return nil, err
	}
	data, err := hex.DecodeString(sc.Doc)
	if err != nil {
		return nil, err
	}
	f := model.Format(sc.Format)
	cd := common.ByName(f)
	if cd == nil {
		return nil, fmt.Errorf("unknown format %q", sc.Format)
	}
	r := exec(cd, &sc, data, x)
	if v := judge(f, &sc, data, r, cd, x); v != nil {
		return v, nil
	}
	if sc.TruncatedIn != "" && (r.err == nil || r.err == io.EOF) {
		return &simkit.Violation{Kind: "truncation-accepted", Site: sc.Format + "/" + sc.Entry, Detail: fmt.Sprintf("returned %v", r.err), Scenario: &sc}, nil
	}
	return nil, nil
}

func drawCuts(c *simkit.Choices, n int) []int {
	if n == 0 {
		return nil
	}
	switch c.N(3) {
	case 0: // one-byte chunks
		cuts := make([]int, 0, n)
		for p := 1; p < n; p++ {
			cuts = append(cuts, p)
		}
		return cuts
	case 1:
		return []int{c.N(n + 1)}
	}
	k := 1 + c.Small(10)
	cuts := make([]int, k)
	for i := range cuts {
		cuts[i] = c.N(n + 1)
	}
	sort.Ints(cuts)
	return cuts
}

func drawReads(c *simkit.Choices, n int) []int {
	k := 1 + c.N(4)
	reads := make([]int, k)
	for i := range reads {
		switch c.N(3) {
		case 0:
			reads[i] = 1
		case 1:
			reads[i] = 1 + c.N(8)
		default:
			reads[i] = 1 + c.N(n+1)
		}
	}
	if c.N(6) == 0 {
		// empty reads (0, nil) in between: "nothing happened", not end of input
		reads = append(reads, 0)
		if c.N(4) == 0 {
			// a long run of them (a stalled source): 2 .. 150 in a row
			reads[len(reads)-1] = -[]int{2, 99, 100, 101, 150}[c.N(5)]
		}
		if c.Bool() {
			reads[0], reads[len(reads)-1] = reads[len(reads)-1], reads[0]
		}
	}
	return reads
}

func trunc(s string, n int) string {
	if len(s) > n {
		return s[:n] + "…"
	}
	return s
}
