package model

import (
	"encoding/binary"

	"verif/simkit"
)

// UBStyle controls the representation choices of the independent UBJSON writer.
type UBStyle struct {
	Minimal   bool // smallest markers, plain containers only
	NoOps     bool // sprinkle 'N' at top level and in uncounted containers
	Counted   bool // allow counted containers
	Typed     bool // allow typed-and-counted containers
	NoPayload bool // allow typed containers of payload-less types (Z, T, F)
	Nested    bool // allow typed containers whose element type is a container
}

func DrawUBStyle(c *simkit.Choices) UBStyle {
	if c.N(5) == 0 {
		return UBStyle{Minimal: true}
	}
	return UBStyle{NoOps: c.N(3) == 0, Counted: c.N(3) > 0, Typed: c.N(3) > 0, NoPayload: c.N(4) == 0, Nested: c.N(3) == 0}
}

func intFits(v int64, m byte) bool {
	switch m {
	case 'i':
		return v >= -128 && v <= 127
	case 'U':
		return v >= 0 && v <= 255
	case 'I':
		return v >= -32768 && v <= 32767
	case 'l':
		return v >= -(1<<31) && v <= (1<<31)-1
	}
	return true
}

var intMarkers = []byte{'i', 'U', 'I', 'l', 'L'}

func (w *docWriter) ubIntMarker(v int64, minimal bool) byte {
	var cand []byte
	for _, m := range intMarkers {
		if intFits(v, m) {
			cand = append(cand, m)
		}
	}
	if minimal || w.c.N(3) > 0 {
		return cand[0]
	}
	return cand[w.c.N(len(cand))]
}

func (w *docWriter) ubIntPayload(v int64, m byte) {
	switch m {
	case 'i', 'U':
		w.b = append(w.b, byte(v))
	case 'I':
		w.b = append(w.b, 0, 0)
		binary.BigEndian.PutUint16(w.b[len(w.b)-2:], uint16(v))
	case 'l':
		w.b = append(w.b, 0, 0, 0, 0)
		binary.BigEndian.PutUint32(w.b[len(w.b)-4:], uint32(v))
	default:
		w.b = append(w.b, 0, 0, 0, 0, 0, 0, 0, 0)
		binary.BigEndian.PutUint64(w.b[len(w.b)-8:], uint64(v))
	}
}

func (w *docWriter) ubLen(n int, st UBStyle, depth int) {
	s := len(w.b)
	m := w.ubIntMarker(int64(n), st.Minimal)
	w.b = append(w.b, m)
	w.ubIntPayload(int64(n), m)
	w.tok(s, "len", depth)
}

func (w *docWriter) ubNoop(st UBStyle, depth int) {
	if st.NoOps && w.c.N(4) == 0 {
		s := len(w.b)
		w.b = append(w.b, 'N')
		w.tok(s, "noop", depth)
	}
}

// ubType returns the type marker under which v can be an element of a typed
// container, or 0. For integers the marker is decided over all elements.
func ubElemClass(v Val) byte {
	switch v.K {
	case VNull:
		return 'Z'
	case VBool:
		if v.B {
			return 'T'
		}
		return 'F'
	case VInt:
		return 'L' // any integer marker; refined by caller
	case VChar:
		return 'C'
	case VF32:
		return 'd'
	case VF64:
		return 'D'
	case VHighPrec:
		return 'H'
	case VText:
		return 'S'
	case VArr:
		return '['
	case VObj:
		return '{'
	}
	return 0
}

func (w *docWriter) ubTypedMarker(elems []Val, st UBStyle) byte {
	if len(elems) == 0 {
		return 0
	}
	cl := ubElemClass(elems[0])
	for _, e := range elems[1:] {
		if ubElemClass(e) != cl {
			return 0
		}
	}
	switch cl {
	case 'Z', 'T', 'F':
		// payload-less typed containers only with few elements: their cost is
		// proportional to the count, not to the bytes (known finding of C03)
		if !st.NoPayload || len(elems) > 32 {
			return 0
		}
	case '[', '{':
		if !st.Nested {
			return 0
		}
	case 'L':
		// choose a marker that fits all
		var cand []byte
		for _, m := range intMarkers {
			ok := true
			for _, e := range elems {
				if !e.FitsInt64() || !intFits(e.Int64(), m) {
					ok = false
				}
			}
			if ok {
				cand = append(cand, m)
			}
		}
		if len(cand) == 0 {
			return 0
		}
		if w.c.N(3) > 0 {
			return cand[0]
		}
		return cand[w.c.N(len(cand))]
	}
	return cl
}

// ubPayload writes v without its type marker (marker m already known).
func (w *docWriter) ubPayload(v Val, m byte, st UBStyle, depth int) {
	s := len(w.b)
	switch m {
	case 'Z', 'T', 'F':
	case 'i', 'U', 'I', 'l', 'L':
		w.ubIntPayload(v.Int64(), m)
		w.tok(s, "int", depth)
	case 'C':
		w.b = append(w.b, byte(v.U))
		w.tok(s, "int", depth)
	case 'd':
		w.b = append(w.b, 0, 0, 0, 0)
		binary.BigEndian.PutUint32(w.b[len(w.b)-4:], uint32(v.F))
		w.tok(s, "float", depth)
	case 'D':
		w.b = append(w.b, 0, 0, 0, 0, 0, 0, 0, 0)
		binary.BigEndian.PutUint64(w.b[len(w.b)-8:], v.F)
		w.tok(s, "float", depth)
	case 'H', 'S':
		w.ubLen(len(v.S), st, depth)
		s2 := len(w.b)
		w.b = append(w.b, v.S...)
		w.tok(s2, "str", depth)
	case '[':
		w.ubArrayBody(v, st, depth)
	case '{':
		w.ubObjectBody(v, st, depth)
	}
}

func (w *docWriter) ubArrayBody(v Val, st UBStyle, depth int) {
	mode := 0 // plain
	var tm byte
	if !st.Minimal {
		if st.Typed && w.c.N(2) == 0 {
			if tm = w.ubTypedMarker(v.A, st); tm != 0 {
				mode = 2
			}
		}
		if mode == 0 && st.Counted && w.c.N(2) == 0 {
			mode = 1
		}
	}
	switch mode {
	case 0:
		for _, e := range v.A {
			w.ubNoop(st, depth)
			w.ubVal(e, st, depth+1)
		}
		w.ubNoop(st, depth)
		s := len(w.b)
		w.b = append(w.b, ']')
		w.tok(s, "punct", depth)
	case 1:
		s := len(w.b)
		w.b = append(w.b, '#')
		w.tok(s, "marker", depth)
		w.ubLen(len(v.A), st, depth)
		for _, e := range v.A {
			w.ubVal(e, st, depth+1)
		}
	case 2:
		s := len(w.b)
		w.b = append(w.b, '$', tm, '#')
		w.tok(s, "marker", depth)
		w.ubLen(len(v.A), st, depth)
		for _, e := range v.A {
			w.ubPayload(e, tm, st, depth+1)
		}
	}
}

func (w *docWriter) ubKey(k string, st UBStyle, depth int) {
	w.ubLen(len(k), st, depth)
	s := len(w.b)
	w.b = append(w.b, k...)
	w.tok(s, "key", depth)
}

func (w *docWriter) ubObjectBody(v Val, st UBStyle, depth int) {
	mode := 0
	var tm byte
	if !st.Minimal {
		if st.Typed && w.c.N(2) == 0 {
			if tm = w.ubTypedMarker(v.A, st); tm != 0 {
				mode = 2
			}
		}
		if mode == 0 && st.Counted && w.c.N(2) == 0 {
			mode = 1
		}
	}
	switch mode {
	case 0:
		// no no-ops in objects: the key position carries no type marker, so
		// the draft is ambiguous there (DESIGN App. C)
		for i, e := range v.A {
			w.ubKey(v.Keys[i], st, depth)
			w.ubVal(e, st, depth+1)
		}
		s := len(w.b)
		w.b = append(w.b, '}')
		w.tok(s, "punct", depth)
	case 1:
		s := len(w.b)
		w.b = append(w.b, '#')
		w.tok(s, "marker", depth)
		w.ubLen(len(v.A), st, depth)
		for i, e := range v.A {
			w.ubKey(v.Keys[i], st, depth)
			w.ubVal(e, st, depth+1)
		}
	case 2:
		s := len(w.b)
		w.b = append(w.b, '$', tm, '#')
		w.tok(s, "marker", depth)
		w.ubLen(len(v.A), st, depth)
		for i, e := range v.A {
			w.ubKey(v.Keys[i], st, depth)
			w.ubPayload(e, tm, st, depth+1)
		}
	}
}

func (w *docWriter) ubVal(v Val, st UBStyle, depth int) {
	beat()
	s := len(w.b)
	var m byte
	switch v.K {
	case VNull, VUndef:
		m = 'Z'
	case VBool:
		m = 'F'
		if v.B {
			m = 'T'
		}
	case VInt:
		m = w.ubIntMarker(v.Int64(), st.Minimal)
	case VChar:
		m = 'C'
	case VF32:
		m = 'd'
	case VF64:
		m = 'D'
	case VHighPrec:
		m = 'H'
	case VText:
		m = 'S'
	case VArr:
		m = '['
	case VObj:
		m = '{'
	default:
		panic("model: value kind not representable in UBJSON: " + v.String())
	}
	w.b = append(w.b, m)
	w.tok(s, "marker", depth)
	w.ubPayload(v, m, st, depth)
}

// WriteUBJSONStream writes the values as a concatenated UBJSON stream.
func WriteUBJSONStream(c *simkit.Choices, vals []Val, st UBStyle) *Doc {
	w := &docWriter{c: c}
	d := &Doc{Format: string(UBJSON), Vals: vals}
	for _, v := range vals {
		w.ubNoop(st, 0)
		s := len(w.b)
		w.ubVal(v, st, 0)
		d.Values = append(d.Values, [2]int{s, len(w.b)})
		d.OpenEnd = append(d.OpenEnd, false)
	}
	d.Bytes, d.Tokens = w.b, w.toks
	return d
}
