//go:build race

package simkit

import "runtime"

// RaceBuild reports whether the binary was built with -race.
const RaceBuild = true

func raceDisable() { runtime.RaceDisable() }
func raceEnable()  { runtime.RaceEnable() }
