// Package simkit is the deterministic simulation kernel: one integer seed
// decides every choice of a run; every choice is recorded in a trace, and a
// trace replays (and shrinks) as a pure function of (trace, code).
package simkit

import (
	"hash/fnv"
	"io"
	"strconv"
)

// SplitMix64 is used to derive run seeds and to seed the PRNG.
func SplitMix64(x uint64) uint64 {
	x += 0x9e3779b97f4a7c15
	z := x
	z = (z ^ (z >> 30)) * 0xbf58476d1ce4e5b9
	z = (z ^ (z >> 27)) * 0x94d049bb133111eb
	return z ^ (z >> 31)
}

// RunSeed derives the seed of run i of a property from VERIF_SEED.
func RunSeed(verifSeed uint64, property string, run uint64) uint64 {
	h := fnv.New64a()
	io.WriteString(h, property)
	return SplitMix64(SplitMix64(verifSeed^h.Sum64()) ^ SplitMix64(run+0x51ed270b))
}

type xoshiro struct{ s [4]uint64 }

func newXoshiro(seed uint64) *xoshiro {
	x := &xoshiro{}
	for i := range x.s {
		seed = SplitMix64(seed)
		x.s[i] = seed
	}
	return x
}

func rotl(x uint64, k uint) uint64 { return (x << k) | (x >> (64 - k)) }

func (x *xoshiro) next() uint64 {
	s := &x.s
	r := rotl(s[1]*5, 7) * 9
	t := s[1] << 17
	s[2] ^= s[0]
	s[3] ^= s[1]
	s[1] ^= s[2]
	s[0] ^= s[3]
	s[2] ^= t
	s[3] = rotl(s[3], 45)
	return r
}

// Choices is the only source of decisions in a run.
//
// Generate mode: values come from a PRNG seeded by the run seed and are
// appended to the trace. Replay mode: values come from a recorded trace
// (clamped to the bound; an exhausted trace yields 0) and the values actually
// used are recorded again, so the effective trace of a replay is canonical.
type Choices struct {
	rng    *xoshiro
	replay []uint64
	pos    int
	Trace  []uint64
	// Sink, if set, receives every draw immediately (crash-attribution mode).
	Sink io.Writer
	// Limit caps the number of draws of one run (runaway guard); 0 = none.
	Limit    int
	Overflow bool
}

func NewChoices(seed uint64) *Choices { return &Choices{rng: newXoshiro(seed)} }

func ReplayChoices(trace []uint64) *Choices {
	return &Choices{replay: append([]uint64{}, trace...)}
}

// Replaying reports whether this source is serving a recorded trace.
func (c *Choices) Replaying() bool { return c.rng == nil }

// N draws a value in [0,n). n<=1 draws nothing and returns 0.
func (c *Choices) N(n int) int {
	if n <= 1 {
		return 0
	}
	return int(c.U64(uint64(n)))
}

// U64 draws a value in [0,n); n==0 means the full 64-bit range.
func (c *Choices) U64(n uint64) uint64 {
	var v uint64
	if c.rng != nil {
		v = c.rng.next()
		if n != 0 {
			// multiply-shift would bias nothing relevant here; keep modulo so
			// that small values shrink naturally
			v %= n
		}
	} else {
		if c.pos < len(c.replay) {
			v = c.replay[c.pos]
		}
		c.pos++
		if n != 0 && v >= n {
			v = n - 1
		}
	}
	if c.Limit > 0 && len(c.Trace) >= c.Limit {
		c.Overflow = true
		return 0
	}
	c.Trace = append(c.Trace, v)
	if c.Sink != nil {
		c.Sink.Write([]byte(strconv.FormatUint(v, 10) + "\n"))
	}
	return v
}

// Bool draws a boolean; 0 (false) is the simple value.
func (c *Choices) Bool() bool { return c.N(2) == 1 }

// Prob returns true with probability num/den; false is the simple value.
func (c *Choices) Prob(num, den int) bool { return c.N(den) >= den-num }

// Range draws in [lo,hi] inclusive; lo is the simple value.
func (c *Choices) Range(lo, hi int) int {
	if hi <= lo {
		return lo
	}
	return lo + c.N(hi-lo+1)
}

// Pick draws an index into a list of n alternatives.
func (c *Choices) Pick(n int) int { return c.N(n) }

// Small draws a small non-negative number with a geometric-ish shape: most
// values are tiny, occasionally up to max. 0 is the simple value.
func (c *Choices) Small(max int) int {
	if max <= 0 {
		return 0
	}
	switch c.N(8) {
	case 0, 1, 2:
		return c.N(min(max, 3) + 1)
	case 3, 4, 5:
		return c.N(min(max, 8) + 1)
	case 6:
		return c.N(min(max, 40) + 1)
	default:
		return c.N(max + 1)
	}
}

func min(a, b int) int {
	if a < b {
		return a
	}
	return b
}
