// Package conc decides C19: instances that are not shared may be used from
// different goroutines at the same time - no data race on library state, and
// every goroutine obtains the result it would obtain running alone. Tasks run
// under simkit.Sched (serialized, seeded, invisible to the race detector) in
// a -race build; the race detector and run-alone equality are the oracles.
package conc

import (
	"bytes"
	"encoding/hex"
	"encoding/json"
	"fmt"
	"io"
	"math"
	"os"
	"os/exec"
	"path/filepath"
	"reflect"
	"runtime"
	"strconv"
	"strings"
	"sync"

	structform "github.com/elastic/go-structform"
	"github.com/elastic/go-structform/gotype"
	sfjson "github.com/elastic/go-structform/json"
	"github.com/elastic/go-structform/visitors"

	"verif/engines/common"
	"verif/engines/reuse"
	"verif/model"
	"verif/simkit"
)

type OpDesc struct {
	Kind    string `json:"kind"`
	Format  string `json:"format,omitempty"`
	Dst     string `json:"dst,omitempty"`
	Type    string `json:"go_type,omitempty"`
	Doc     string `json:"doc_hex,omitempty"`
	Reads   []int  `json:"read_sizes,omitempty"`
	Variant int    `json:"custom_variant,omitempty"`
	Values  int    `json:"values,omitempty"`
}

type Scenario struct {
	Tasks    [][]OpDesc `json:"tasks"`
	Policy   int        `json:"policy"`
	Schedule string     `json:"schedule,omitempty"` // decisions actually taken (task index per step)
	Switches int        `json:"switches,omitempty"`
}

type Engine struct{}

// op is one prepared pipeline operation; run executes it on instances of its
// own and returns a rendering of the result. yield is called at every seam.
type op struct {
	desc OpDesc
	run  func(yield func()) []interface{} // raw result parts; rendered after the join, outside the tasks
	// check is an analytic oracle on the rendered result (independent of the
	// run-alone reference, which shares the process with the concurrent phase)
	check func(rendered string, parts []interface{}) string
}

func render(parts []interface{}) string {
	var sb strings.Builder
	for _, p := range parts {
		switch v := p.(type) {
		case []byte:
			fmt.Fprintf(&sb, "%x ", v)
		case error:
			fmt.Fprintf(&sb, "err=%v ", v)
		case nil:
			sb.WriteString("nil ")
		case panicked:
			fmt.Fprintf(&sb, "PANIC %s ", string(v))
		default:
			sb.WriteString(model.Render(v) + " ")
		}
	}
	return sb.String()
}

type panicked string

// withByte completes visitors.StringConvVisitor to a structform.Visitor.
type withByte struct{ *visitors.StringConvVisitor }

func (w withByte) OnByte(b byte) error { return w.OnUint8(b) }

// optionSensitive are values whose JSON encoding depends on the encoder's
// options (HTML escaping, explicit radix point, invalid floats). Maps have one
// entry only (map iteration order has no seam, DESIGN 2.8).
var optionSensitive = []interface{}{
	map[string]interface{}{"a<b": "x>y"},
	map[string]string{"t&c": "</script>"},
	map[string]float64{"<": 2},
	map[string]interface{}{"k>": 1.0},
	[]interface{}{1e21, map[string]interface{}{"&n": 1e21}},
	[]interface{}{"<&>", 3.0, float32(0.5), "\u2028"},
	map[string][]float64{"&": {1, 2.5, math.NaN()}},
	[]float64{100000000, math.Inf(1)},
	model.Simple{B: "<b>", D: 4},
}

// newEnc builds an encoder; JSON encoders get per-task option settings.
func newEnc(f model.Format, w io.Writer, opts int) structform.Visitor {
	if f == model.JSON {
		v := sfjson.NewVisitor(w)
		if opts&1 != 0 {
			v.SetEscapeHTML(false)
		}
		if opts&2 != 0 {
			v.SetExplicitRadixPoint(true)
		}
		if opts&4 != 0 {
			v.SetIgnoreInvalidFloat(true)
		}
		return v
	}
	return common.ByName(f).NewVisitor(w)
}

func yieldingReader(data []byte, sizes []int, yield func()) *simkit.Reader {
	return &simkit.Reader{Data: data, Sizes: sizes, Yield: yield}
}

func yieldingWriter(yield func()) *simkit.Writer {
	w := simkit.NewWriter()
	w.Yield = yield // called before p is consumed: a blocked writer
	return w
}

func yieldingTap(next structform.Visitor, yield func()) *simkit.Tap {
	t := simkit.NewTap(next)
	t.NoRecord = true
	t.Hook = func(int, *simkit.Ev) error { yield(); return nil }
	return t
}

func guard(f func() []interface{}) []interface{} {
	var out []interface{}
	if pi := simkit.Guard(func() { out = f() }); pi != nil {
		return []interface{}{panicked(pi.Value + " @" + pi.Site)}
	}
	return out
}

func pickType(c *simkit.Choices) *model.TypeEntry {
	return model.PickType(c, true, false, false)
}

func docFor(c *simkit.Choices, te *model.TypeEntry, f model.Format, val interface{}) []byte {
	evs := reuse.RecordFold(val)
	if evs == nil {
		return nil
	}
	v, err := model.ValFromEvents(evs)
	if err != nil {
		return nil
	}
	if v.K == model.VObj && c.N(2) == 0 {
		// members the target type does not know: their values are skipped by
		// the unfolder's ignore states (package-level singletons)
		for i, n := 0, 1+c.N(3); i < n; i++ {
			v.Keys = append(v.Keys, fmt.Sprintf("zz_unknown_%d", i))
			v.A = append(v.A, unknownValue(c, 0))
		}
	}
	fv, ok := model.ForFormat(v, f)
	if !ok {
		return nil
	}
	switch f {
	case model.JSON:
		return model.WriteJSONStream(c, []model.Val{fv}, false).Bytes
	case model.CBOR:
		return model.WriteCBORStream(c, []model.Val{fv}).Bytes
	}
	return model.WriteUBJSONStream(c, []model.Val{fv}, model.DrawUBStyle(c)).Bytes
}

func unknownValue(c *simkit.Choices, depth int) model.Val {
	switch c.N(6) {
	case 0:
		return model.Int(int64(c.N(1000)))
	case 1:
		return model.Bool(c.Bool())
	case 2:
		return model.Val{K: model.VNull}
	case 3, 4:
		a := model.Val{K: model.VArr}
		if depth < 3 {
			for i, n := 0, c.N(4); i < n; i++ {
				a.A = append(a.A, unknownValue(c, depth+1))
			}
		}
		return a
	default:
		return model.Int(int64(-c.N(100)))
	}
}

func drawReads(c *simkit.Choices) []int {
	var r []int
	for i, n := 0, 1+c.N(3); i < n; i++ {
		r = append(r, 1+c.N(16))
	}
	return r
}

// shared inputs of one run: prepared once, handed to several tasks read-only
// wrappedCell is the cell of the shared processing unfolder for model.Holder:
// it contains model.Inner, for which tasks register different custom unfolders.
type wrappedCell struct {
	A model.Inner
	L []model.Inner
}

// sharedHolderOption is ONE option value (a processing unfolder for
// model.Holder) handed to the unfolders of several tasks, the way a program
// keeps its options in a package-level variable.
func sharedHolderOption() gotype.UnfoldOption {
	return gotype.Unfolders(func(_ *model.Holder) (interface{}, func(*model.Holder, interface{}) error) {
		cell := &wrappedCell{}
		return cell, func(to *model.Holder, c interface{}) error {
			wc, ok := c.(*wrappedCell)
			if !ok {
				return fmt.Errorf("shared option: foreign cell %T", c)
			}
			to.A, to.L = wc.A, wc.L
			return nil
		}
	})
}

type shared struct {
	holderOpt gotype.UnfoldOption
	// ONE gotype.Folders option value (a folder for model.Inner with marker
	// variant 15) handed to several iterators, alone or followed by a second
	// Folders option of the task's own: options are values, not instances
	foldOpt gotype.FoldOption
	// fold-only values (inline interface / Folder / map fields): shared by the
	// fold-encode operations of all tasks
	foldVals  []interface{}
	foldTypes []*model.TypeEntry
	vals      []interface{}
	types     []*model.TypeEntry
	// large typed slices that several tasks fold at the same time: shared
	// INPUT is read-only for everybody (bulk paths start at some length)
	big   []interface{}
	docs  [][]byte
	fmts  []model.Format
	dtype []*model.TypeEntry
}

func genShared(c *simkit.Choices) *shared {
	s := &shared{holderOpt: sharedHolderOption(), foldOpt: gotype.Folders(innerFolder(15))}
	// the first shared value always contains model.Inner, the type for which
	// tasks register different custom folders/unfolders
	inner := []string{"Holder", "Nested", "Tagged", "Inner", "[]*Inner", "Holder", "Wide", "HolderInline", "HolderInline"}
	te0 := model.TypeByName(inner[c.N(len(inner))])
	s.types = append(s.types, te0)
	s.vals = append(s.vals, te0.Gen(c))
	for i, n := 0, 1+c.N(2); i < n; i++ {
		te := model.TypeByName([]string{"InlineIfc", "InlineFolder", "InlineMap", "InlineTyped", "WithFolder", "InlineIfc", "OmitTwins", "OmitTwins", "OmitIfc"}[c.N(9)])
		s.foldTypes = append(s.foldTypes, te)
		s.foldVals = append(s.foldVals, te.Gen(c))
	}
	// the second shared value is a map whose key needs HTML escaping: its
	// encoding depends on a per-encoder option
	hk := []string{"<a>", "a&b", "x<y>&z", "<", "k>"}[c.N(5)] + model.GenKey(c, 6)
	s.types = append(s.types, model.TypeByName("map[string]interface{}"))
	s.vals = append(s.vals, map[string]interface{}{hk: model.GenText(c, 12)})
	for i, n := 0, 1+c.N(3); i < n; i++ {
		te := pickType(c)
		s.types = append(s.types, te)
		s.vals = append(s.vals, te.Gen(c))
	}
	for i, n := 0, 2+c.N(2); i < n; i++ {
		ln := []int{255, 256, 257, 300, 1024, 1025}[c.N(6)]
		kind := c.N(8)
		if i == 0 {
			kind = c.N(2) // (always one of the float kinds: bulk paths of the binary encoders)
		}
		switch kind {
		case 0:
			a := make([]float64, ln)
			for j := range a {
				a[j] = float64(j) + 0.5
			}
			s.big = append(s.big, a)
		case 1:
			a := make([]float32, ln)
			for j := range a {
				a[j] = float32(j) + 0.25
			}
			s.big = append(s.big, a)
		case 2:
			a := make([]int64, ln)
			for j := range a {
				a[j] = int64(j)<<33 + 1
			}
			s.big = append(s.big, a)
		case 3:
			a := make([]int32, ln)
			for j := range a {
				a[j] = int32(j)<<17 + 1
			}
			s.big = append(s.big, a)
		case 4:
			a := make([]uint16, ln)
			for j := range a {
				a[j] = uint16(j)<<8 + 1
			}
			s.big = append(s.big, a)
		case 5:
			a := make([]string, ln)
			for j := range a {
				a[j] = "s" + string(rune('a'+j%26))
			}
			s.big = append(s.big, a)
		case 6:
			a := make([]interface{}, ln)
			for j := range a {
				a[j] = j
			}
			s.big = append(s.big, a)
		default:
			a := make([]uint8, ln)
			for j := range a {
				a[j] = uint8(j)
			}
			s.big = append(s.big, a)
		}
	}
	for i, n := 0, 2+c.N(3); i < n; i++ {
		te := pickType(c)
		f := model.Formats[c.N(3)]
		d := docFor(c, te, f, te.Gen(c))
		if d == nil {
			continue
		}
		s.docs = append(s.docs, d)
		s.fmts = append(s.fmts, f)
		s.dtype = append(s.dtype, te)
	}
	return s
}

// custom folder / unfolder variants for model.Inner: the SAME Go type is
// handled differently by different tasks, through per-instance registries.
func innerFolder(variant int) interface{} {
	return func(in *model.Inner, vs structform.ExtVisitor) error {
		return vs.OnString(marker("v", variant) + in.Z)
	}
}

func innerUnfolder(variant int) interface{} {
	return func(to *model.Inner, s string) error {
		to.Z = marker("u", variant) + s
		to.X = int8(variant)
		return nil
	}
}

// marker is a string no generator of the harness can produce ('~' is in no
// alphabet), so its presence in an output is attributable to one variant.
func marker(kind string, variant int) string {
	return "~" + kind + string(rune('A'+variant)) + "~"
}

// foreignMarker returns a marker of another variant found in s, or "".
func foreignMarker(s, kind string, own int) string {
	for v := 0; v < 16; v++ {
		if v != own && strings.Contains(s, marker(kind, v)) {
			return marker(kind, v)
		}
	}
	return ""
}

func genOp(c *simkit.Choices, sh *shared, taskIdx int) *op {
	kind := c.N(10)
	switch kind {
	case 0: // fold -> encoder -> writer
		i := c.N(len(sh.vals))
		f := model.Formats[c.N(3)]
		val, tname := sh.vals[i], sh.types[i].Name
		switch c.N(6) {
		case 0: // a value of its own, possibly of a fold-only type
			te := model.PickType(c, false, false, false)
			val, tname = te.Gen(c), te.Name
		case 1, 2: // a shared value with inline interface / Folder / map fields
			j := c.N(len(sh.foldVals))
			val, tname = sh.foldVals[j], sh.foldTypes[j].Name
		}
		if c.N(5) == 0 {
			j := c.N(len(sh.big))
			val, tname = sh.big[j], fmt.Sprintf("shared %T of %d", sh.big[j], reflect.ValueOf(sh.big[j]).Len())
		}
		if c.N(6) == 0 {
			// every task its OWN value of one of a few types whose folding goes
			// through scratch copies (pointer-receiver IsZero/Fold on values
			// that are not addressable, inline and omitempty resolution):
			// the same code on different data at the same time
			mine := 100000*(taskIdx+1) + c.N(1000)
			o := model.Opts{A: model.OptInt{Set: true, V: mine}, B: model.OptInt{Set: c.Bool(), V: mine + 1}, P: &model.OptInt{Set: true, V: mine + 2}, N: mine}
			switch c.N(4) {
			case 0:
				val, tname = o, "Opts(own)"
			case 1:
				val, tname = []model.Opts{o, o}, "[]Opts(own)"
			case 2:
				val, tname = map[string]interface{}{"o": o}, "map[string]interface{}{Opts}(own)"
			default:
				val, tname = []interface{}{o, model.OmitIfc{ID: mine, V: model.ZeroS{X: mine}, W: model.PlainS{X: mine}}}, "[]interface{}{Opts,OmitIfc}(own)"
			}
		}
		if c.N(4) == 0 {
			// a fixed pool of option-sensitive inputs, the same in every task and
			// run: whatever is remembered per input text (not per encoder
			// configuration) is hit by encoders that differ in their options
			j := c.N(len(optionSensitive))
			val, tname, f = optionSensitive[j], fmt.Sprintf("option-sensitive#%d", j), model.JSON
		}
		eo := c.N(8)
		return &op{desc: OpDesc{Kind: "fold-encode", Format: string(f), Type: tname, Variant: eo},
			check: func(_ string, parts []interface{}) string {
				out, _ := parts[0].([]byte)
				if m := foreignMarker(string(out), "v", -1); m != "" {
					return "an iterator WITHOUT custom folders produced another iterator's marker: " + m
				}
				return ""
			},
			run: func(yield func()) []interface{} {
				return guard(func() []interface{} {
					w := yieldingWriter(yield)
					err := gotype.Fold(val, newEnc(f, w, eo))
					return []interface{}{w.Buf, err}
				})
			}}
	case 1: // reader -> parser -> unfolder
		if len(sh.docs) == 0 {
			return genOp(c, sh, taskIdx)
		}
		i := c.N(len(sh.docs))
		doc, f, te := sh.docs[i], sh.fmts[i], sh.dtype[i]
		reads := drawReads(c)
		cd := common.ByName(f)
		kc := 0
		if c.N(3) == 0 {
			kc = 1 + c.N(5) // with a key cache of its own
		}
		return &op{desc: OpDesc{Kind: "parse-unfold", Format: string(f), Type: te.Name, Doc: hex.EncodeToString(doc), Reads: reads, Variant: kc},
			run: func(yield func()) []interface{} {
				return guard(func() []interface{} {
					ptr, _, get := te.NewTarget()
					u, err := gotype.NewUnfolder(ptr)
					if err != nil {
						return []interface{}{err}
					}
					if kc > 0 {
						u.EnableKeyCache(kc)
					}
					_, err = cd.ParseReader(yieldingReader(doc, reads, yield), yieldingTap(u, yield))
					return []interface{}{get(), err}
				})
			}}
	case 2: // transcode
		if len(sh.docs) == 0 {
			return genOp(c, sh, taskIdx)
		}
		i := c.N(len(sh.docs))
		doc, f := sh.docs[i], sh.fmts[i]
		df := model.Formats[c.N(3)]
		reads := drawReads(c)
		src := common.ByName(f)
		eo := c.N(8)
		return &op{desc: OpDesc{Kind: "transcode", Format: string(f), Dst: string(df), Doc: hex.EncodeToString(doc), Reads: reads, Variant: eo},
			run: func(yield func()) []interface{} {
				return guard(func() []interface{} {
					w := yieldingWriter(yield)
					_, err := src.ParseReader(yieldingReader(doc, reads, yield), newEnc(df, w, eo))
					return []interface{}{w.Buf, err}
				})
			}}
	case 3: // fold -> unfold directly
		i := c.N(len(sh.vals))
		val, te := sh.vals[i], sh.types[i]
		return &op{desc: OpDesc{Kind: "fold-unfold", Type: te.Name},
			check: func(r string, _ []interface{}) string {
				if m := foreignMarker(r, "u", -1) + foreignMarker(r, "v", -1); m != "" {
					return "instances WITHOUT custom folders/unfolders produced another instance's marker: " + m
				}
				return ""
			},
			run: func(yield func()) []interface{} {
				return guard(func() []interface{} {
					ptr, _, get := te.NewTarget()
					u, err := gotype.NewUnfolder(ptr)
					if err != nil {
						return []interface{}{err}
					}
					err = gotype.Fold(val, yieldingTap(u, yield))
					return []interface{}{get(), err}
				})
			}}
	case 4: // one iterator and one unfolder reused across several values
		n := 2 + c.N(3)
		var idx []int
		for j := 0; j < n; j++ {
			idx = append(idx, c.N(len(sh.vals)))
		}
		return &op{desc: OpDesc{Kind: "iterator-unfolder-reuse", Values: n},
			run: func(yield func()) []interface{} {
				return guard(func() []interface{} {
					u, err := gotype.NewUnfolder(nil)
					if err != nil {
						return []interface{}{err}
					}
					it, err := gotype.NewIterator(yieldingTap(u, yield))
					if err != nil {
						return []interface{}{err}
					}
					var out []interface{}
					for _, i := range idx {
						ptr, _, get := sh.types[i].NewTarget()
						if err := u.SetTarget(ptr); err != nil {
							return []interface{}{err}
						}
						err := it.Fold(sh.vals[i])
						out = append(out, get(), err)
						if err != nil {
							u.Reset()
						}
					}
					return out
				})
			}}
	case 5: // per-instance custom folder for a shared Go type
		variant := taskIdx*2 + c.N(2)
		f := model.Formats[c.N(3)]
		cd := common.ByName(f)
		if c.N(3) == 0 {
			// a type that only an iterator with a matching user folder can fold:
			// some tasks have the folder, others do not (and must be refused) -
			// neither outcome may leak into another iterator
			plain := c.N(3) == 0
			z := complex(float64(c.N(100)), float64(c.N(100)))
			odd := model.Odd{A: model.GenText(c, 8), C: z, L: []complex128{z, -z}, P: &z}
			var shape interface{} = odd
			switch c.N(3) {
			case 0:
				shape = []model.Odd{odd}
			case 1:
				shape = map[string]model.Odd{"k": odd}
			}
			desc := OpDesc{Kind: "custom-folder-for-unsupported-kind", Format: string(f), Variant: variant}
			if plain {
				desc.Kind = "no-folder-for-unsupported-kind"
			}
			return &op{desc: desc,
				check: func(_ string, parts []interface{}) string {
					if len(parts) != 2 {
						return ""
					}
					out, _ := parts[0].([]byte)
					if plain {
						if parts[1] == nil {
							return "an iterator without a folder for complex128 folded a value containing one"
						}
						return ""
					}
					if parts[1] != nil {
						return fmt.Sprintf("an iterator WITH a user-defined folder for complex128 refused the value: %v", parts[1])
					}
					if strings.Count(string(out), marker("c", variant)) != 4 {
						return "output lacks the marker of this iterator's own complex128 folder " + marker("c", variant) + " in some of the 4 positions"
					}
					if m := foreignMarker(string(out), "c", variant); m != "" {
						return "output carries the marker of ANOTHER iterator's folder: " + m
					}
					return ""
				},
				run: func(yield func()) []interface{} {
					return guard(func() []interface{} {
						w := yieldingWriter(yield)
						var opts []gotype.FoldOption
						if !plain {
							opts = append(opts, gotype.Folders(func(z *complex128, vs structform.ExtVisitor) error {
								return vs.OnString(marker("c", variant) + fmt.Sprint(*z))
							}))
						}
						it, err := gotype.NewIterator(cd.NewVisitor(w), opts...)
						if err != nil {
							return []interface{}{err}
						}
						err = it.Fold(shape)
						return []interface{}{w.Buf, err}
					})
				}}
		}
		val := model.Nested{I: model.Inner{X: int8(c.N(100)), Z: model.GenText(c, 10)}, S: model.Simple{B: "s"}}
		var shape interface{} = val
		if c.Bool() {
			shape = model.Tagged{Name: "t", In: val.I}
		}
		if c.N(3) == 0 {
			// Inner NESTED INSIDE an inlined struct: what is compiled for the
			// inlined type depends on this iterator's folders
			shape = model.HolderInline{X: "x", Sub: model.HolderSub{A: val.I}, Deep: model.HolderSub{L: []model.Inner{val.I}}}
		}
		if c.N(3) == 0 {
			// the SHARED option value, alone or with a second option of this task
			own := c.Bool()
			desc := OpDesc{Kind: "shared-folder-option", Format: string(f), Variant: variant}
			if own {
				desc.Kind = "shared-folder-option-plus-own"
			}
			nested := model.Nested{I: val.I, S: model.Simple{B: "s" + model.GenText(c, 4)}}
			return &op{desc: desc,
				check: func(_ string, parts []interface{}) string {
					if len(parts) != 2 || parts[1] != nil {
						return ""
					}
					out, _ := parts[0].([]byte)
					if !strings.Contains(string(out), marker("v", 15)) {
						return "output lacks the marker of the shared Inner folder " + marker("v", 15)
					}
					if has := strings.Contains(string(out), marker("w", variant)); has != own {
						return fmt.Sprintf("marker of this task's own Simple folder %s present=%v, registered=%v", marker("w", variant), has, own)
					}
					if m := foreignMarker(string(out), "w", variant); m != "" {
						return "output carries the marker of ANOTHER task's Simple folder (registered next to the shared option value there): " + m
					}
					return ""
				},
				run: func(yield func()) []interface{} {
					return guard(func() []interface{} {
						w := yieldingWriter(yield)
						opts := []gotype.FoldOption{sh.foldOpt}
						if own {
							opts = append(opts, gotype.Folders(func(in *model.Simple, vs structform.ExtVisitor) error {
								return vs.OnString(marker("w", variant) + in.B)
							}))
						}
						it, err := gotype.NewIterator(cd.NewVisitor(w), opts...)
						if err != nil {
							return []interface{}{err}
						}
						yield()
						err = it.Fold(nested)
						return []interface{}{w.Buf, err}
					})
				}}
		}
		return &op{desc: OpDesc{Kind: "custom-folder", Format: string(f), Variant: variant},
			check: func(_ string, parts []interface{}) string {
				out, _ := parts[0].([]byte)
				if len(parts) == 2 && parts[1] == nil && !strings.Contains(string(out), marker("v", variant)) {
					return "output lacks the marker of this iterator's own custom folder " + marker("v", variant)
				}
				if m := foreignMarker(string(out), "v", variant); m != "" {
					return "output carries the marker of ANOTHER iterator's custom folder: " + m
				}
				return ""
			},
			run: func(yield func()) []interface{} {
				return guard(func() []interface{} {
					w := yieldingWriter(yield)
					it, err := gotype.NewIterator(cd.NewVisitor(w), gotype.Folders(innerFolder(variant)))
					if err != nil {
						return []interface{}{err}
					}
					err = it.Fold(shape)
					if err == nil {
						err = it.Fold(&val.I)
					}
					return []interface{}{w.Buf, err}
				})
			}}
	case 6: // per-instance custom unfolder for a shared Go type, inside a shared enclosing type
		variant := taskIdx*2 + c.N(2)
		s := model.GenText(c, 10)
		// the enclosing type: Holder (Inner as field, slice, pointer, map) or
		// HolderInline (Inner behind an inlined / nested / pointed-to / listed /
		// mapped sub-struct)
		inline := c.N(3) != 0
		want := 5
		if inline {
			want = 8
		}
		str := func(x string) simkit.Ev { return simkit.Ev{K: simkit.KStr, S: s + x} }
		key := func(k string) simkit.Ev { return simkit.Ev{K: simkit.KKey, S: k} }
		oS, oE := simkit.Ev{K: simkit.KObjStart, I: -1}, simkit.Ev{K: simkit.KObjEnd}
		aS, aE := simkit.Ev{K: simkit.KArrStart, I: -1}, simkit.Ev{K: simkit.KArrEnd}
		evs := []simkit.Ev{oS, key("a"), str(""), key("l"), aS, str("1"), str("2"), aE,
			key("p"), str("3"), key("m"), oS, key("k"), str("4"), oE, oE}
		if inline {
			evs = []simkit.Ev{oS, key("x"), {K: simkit.KStr, S: "plain"}, key("a"), str(""), key("l"), aS, str("1"), str("2"), aE,
				key("deep"), oS, key("a"), str("3"), key("l"), aS, str("4"), aE, oE,
				key("ps"), oS, key("a"), str("5"), oE,
				key("ls"), aS, oS, key("a"), str("6"), oE, aE,
				key("ms"), oS, key("k"), oS, key("a"), str("7"), oE, oE, oE}
		}
		return &op{desc: OpDesc{Kind: "custom-unfolder", Variant: variant},
			check: func(r string, _ []interface{}) string {
				if strings.Contains(r, "err=") {
					return "the stream of strings is refused although this unfolder registered a string unfolder for model.Inner"
				}
				if strings.Count(r, marker("u", variant)) != want {
					return fmt.Sprintf("result does not carry this unfolder's own marker %s in all %d Inner positions", marker("u", variant), want)
				}
				if m := foreignMarker(r, "u", variant); m != "" {
					return "result carries the marker of ANOTHER unfolder's custom unfolder: " + m
				}
				return ""
			},
			run: func(yield func()) []interface{} {
				return guard(func() []interface{} {
					var toH model.Holder
					var toI model.HolderInline
					var to interface{} = &toH
					if inline {
						to = &toI
					}
					u, err := gotype.NewUnfolder(to, gotype.Unfolders(innerUnfolder(variant)))
					if err != nil {
						return []interface{}{err}
					}
					t := yieldingTap(u, yield)
					for _, e := range evs {
						if err := simkit.Emit(t, e, false); err != nil {
							return []interface{}{err}
						}
					}
					if inline {
						return []interface{}{toI}
					}
					return []interface{}{toH}
				})
			}}
	case 8: // ONE shared option value + a per-task custom unfolder for a type inside its cell
		variant := taskIdx*2 + c.N(2)
		s := model.GenText(c, 10)
		opt := sh.holderOpt
		return &op{desc: OpDesc{Kind: "shared-option-unfolder", Variant: variant},
			check: func(r string, _ []interface{}) string {
				if strings.Contains(r, "err=") {
					return "refused although this unfolder registered a string unfolder for model.Inner next to the shared option"
				}
				if strings.Count(r, marker("u", variant)) != 3 {
					return "result does not carry this unfolder's own marker " + marker("u", variant) + " in all 3 Inner positions"
				}
				if m := foreignMarker(r, "u", variant); m != "" {
					return "result carries the marker of ANOTHER unfolder's custom unfolder: " + m
				}
				return ""
			},
			run: func(yield func()) []interface{} {
				return guard(func() []interface{} {
					var to model.Holder
					u, err := gotype.NewUnfolder(&to, opt, gotype.Unfolders(innerUnfolder(variant)))
					if err != nil {
						return []interface{}{err}
					}
					t := yieldingTap(u, yield)
					evs := []simkit.Ev{{K: simkit.KObjStart, I: -1}, {K: simkit.KKey, S: "a"}, {K: simkit.KStr, S: s},
						{K: simkit.KKey, S: "l"}, {K: simkit.KArrStart, I: -1}, {K: simkit.KStr, S: s + "1"}, {K: simkit.KStr, S: s + "2"}, {K: simkit.KArrEnd},
						{K: simkit.KObjEnd}}
					for _, e := range evs {
						if err := simkit.Emit(t, e, false); err != nil {
							return []interface{}{err}
						}
					}
					return []interface{}{to}
				})
			}}
	case 7: // a corrupted / truncated document through a one-shot entry point: the error path
		if len(sh.docs) == 0 {
			return genOp(c, sh, taskIdx)
		}
		i := c.N(len(sh.docs))
		f := sh.fmts[i]
		cd := common.ByName(f)
		bad := append([]byte{}, sh.docs[i]...)
		if len(bad) > 1 {
			switch c.N(3) {
			case 0:
				bad = bad[:1+c.N(len(bad)-1)] // truncated
			case 1:
				bad[c.N(len(bad))] ^= byte(1 << uint(c.N(8)))
			default:
				at := c.N(len(bad))
				bad = append(bad[:at:at], append([]byte{byte(c.N(256))}, bad[at:]...)...)
			}
		}
		if f == model.UBJSON && common.HasPayloadlessTyped(bad) {
			bad = append([]byte{}, sh.docs[i][:len(sh.docs[i])/2]...) // known finding of C03 (event flood): plain truncation instead
		}
		if c.N(4) == 0 {
			// the SAME refusals in several tasks at once (a fixed pool): whatever
			// an error path keeps per process is hit by all of them
			f, cd = model.JSON, common.JSON
			bad = []byte([]string{`[1,123456789012345678901234567890]`, `{"a":-99999999999999999999}`, `[1e999]`, `["\ud800\u12"]`, `[1,]`, `{"a" 1}`, `[18446744073709551616]`}[c.N(7)])
		}
		entry := c.N(3)
		reads := drawReads(c)
		return &op{desc: OpDesc{Kind: "parse-hostile", Format: string(f), Doc: hex.EncodeToString(bad), Reads: reads, Variant: entry},
			run: func(yield func()) []interface{} {
				return guard(func() []interface{} {
					t := simkit.NewTap(nil)
					t.MaxKeep = 200
					t.Hook = func(int, *simkit.Ev) error { yield(); return nil }
					var err error
					switch entry {
					case 0:
						err = cd.Parse(simkit.Exact(bad), t)
					case 1:
						err = cd.ParseString(string(bad), t)
					default:
						_, err = cd.ParseReader(yieldingReader(bad, reads, yield), t)
					}
					return []interface{}{simkit.EventsString(t.Events, 60), err}
				})
			}}
	default: // a generated event stream (all event kinds, extended events, uint64 above MaxInt64) into an encoder
		f := model.Formats[c.N(3)]
		eo := c.N(8)
		oo := model.OpsOpts{Extended: true, NonFinite: f != model.JSON, BigUint: true, Hints: true, MaxDepth: 3, Budget: 10, MaxStr: 30, DeepChains: true}
		ops := model.GenOps(c, oo)
		if c.Bool() {
			// the same number as float32 and as its widening to float64: their
			// shortest texts differ ("0.1" vs "0.10000000149011612")
			fs := []float32{0.1, 0.2, 0.3, 3.14, 1e-7, 2.5e-5, 0.7}
			pre := []model.Op{{Ev: simkit.Ev{K: simkit.KArrStart, I: -1}}}
			for i, n := 0, 1+c.N(3); i < n; i++ {
				f := fs[c.N(len(fs))]
				if c.Bool() {
					pre = append(pre, model.Op{Ev: simkit.Ev{K: simkit.KFloat32, U: uint64(math.Float32bits(f))}})
				} else {
					pre = append(pre, model.Op{Ev: simkit.Ev{K: simkit.KFloat64, U: math.Float64bits(float64(f))}})
				}
			}
			ops = append(append(pre, ops...), model.Op{Ev: simkit.Ev{K: simkit.KArrEnd}})
		}
		if c.Bool() {
			// two values that UBJSON writes through its high-precision path
			big := []model.Op{{Ev: simkit.Ev{K: simkit.KArrStart, I: -1}},
				{Ev: simkit.Ev{K: simkit.KUint64, U: model.GenUintBig(c).U}}, {Ev: simkit.Ev{K: simkit.KUint64, U: model.GenUintBig(c).U}}}
			ops = append(append(big, ops...), model.Op{Ev: simkit.Ev{K: simkit.KArrEnd}})
		}
		kind := "events-encode"
		conv := c.N(6) == 0
		if conv {
			kind = "events-stringconv-encode" // through a visitors.StringConvVisitor of its own
		}
		return &op{desc: OpDesc{Kind: kind, Format: string(f), Values: len(ops), Variant: eo},
			run: func(yield func()) []interface{} {
				return guard(func() []interface{} {
					w := yieldingWriter(yield)
					enc := structform.EnsureExtVisitor(newEnc(f, w, eo))
					if conv {
						enc = structform.EnsureExtVisitor(withByte{visitors.NewStringConvVisitor(enc)})
					}
					for _, o := range ops {
						if err := model.Apply(enc, o); err != nil {
							return []interface{}{w.Buf, err}
						}
					}
					return []interface{}{w.Buf, nil}
				})
			}}
	}
}

// generate draws the programs of one run. It is a pure function of the choice
// source, so a reference child process can regenerate it from the trace.
func generate(c *simkit.Choices) (progs [][]*op, sc *Scenario, policy int) {
	sh := genShared(c)
	ntasks := 2 + c.N(5)
	policy = c.N(simkit.NumPolicies)
	sc = &Scenario{Policy: policy}
	progs = make([][]*op, ntasks)
	for t := 0; t < ntasks; t++ {
		var descs []OpDesc
		for i, n := 0, 1+c.N(4); i < n; i++ {
			o := genOp(c, sh, t)
			progs[t] = append(progs[t], o)
			descs = append(descs, o.desc)
		}
		sc.Tasks = append(sc.Tasks, descs)
	}
	return
}

// RefMain is the body of the reference child process: it regenerates the
// programs from the generation trace read from in and executes ONE task alone
// in this fresh process, printing its rendered results as JSON.
func RefMain(in io.Reader, out io.Writer, task int) int {
	var trace []uint64
	if err := json.NewDecoder(in).Decode(&trace); err != nil {
		fmt.Fprintln(os.Stderr, "conc-ref: bad trace:", err)
		return 2
	}
	progs, _, _ := generate(simkit.ReplayChoices(trace))
	if task < 0 || task >= len(progs) {
		fmt.Fprintln(os.Stderr, "conc-ref: no such task")
		return 2
	}
	var res []string
	for _, o := range progs[task] {
		// hex: the rendering may hold arbitrary bytes, JSON strings would not
		// carry them unchanged
		res = append(res, hex.EncodeToString([]byte(render(o.run(func() {})))))
	}
	json.NewEncoder(out).Encode(res)
	return 0
}

// FreeMain is the body of the free-running child process: it regenerates the
// programs from the generation trace and runs ALL tasks at once on real
// threads (no simulated scheduler: the operating system decides), released
// together by a barrier, in this fresh process - so that the first use of
// every Go type, which compiles its folder or unfolder, happens under true
// parallelism, inside windows that contain no seam at all.
func FreeMain(in io.Reader, out io.Writer) int {
	var trace []uint64
	if err := json.NewDecoder(in).Decode(&trace); err != nil {
		fmt.Fprintln(os.Stderr, "conc-free: bad trace:", err)
		return 2
	}
	progs, _, _ := generate(simkit.ReplayChoices(trace))
	res := make([][]string, len(progs))
	var ready, done sync.WaitGroup
	start := make(chan struct{})
	for t := range progs {
		t := t
		ready.Add(1)
		done.Add(1)
		go func() {
			defer done.Done()
			ready.Done()
			<-start
			for _, o := range progs[t] {
				res[t] = append(res[t], hex.EncodeToString([]byte(render(o.run(runtime.Gosched)))))
			}
		}()
	}
	ready.Wait()
	close(start)
	done.Wait()
	json.NewEncoder(out).Encode(res)
	return 0
}

// freeRunning executes the run's tasks in parallel in a fresh process of the
// race-instrumented build and returns their results (or a race report).
func freeRunning(genTrace []uint64) ([][]string, string, error) {
	dir := os.Getenv("VERIF_DIR")
	if dir == "" {
		dir = "/verif"
	}
	bin := filepath.Join(dir, ".build", "vcheck-race")
	tr, _ := json.Marshal(genTrace)
	cmd := exec.Command(bin, "conc-free")
	cmd.Stdin = bytes.NewReader(tr)
	var se bytes.Buffer
	cmd.Stderr = &se
	cmd.Env = append(os.Environ(), "GOMAXPROCS=8", "GORACE=halt_on_error=1 atexit_sleep_ms=0")
	b, err := cmd.Output()
	if err != nil {
		if strings.Contains(se.String(), "WARNING: DATA RACE") || strings.Contains(se.String(), "fatal error:") {
			return nil, se.String(), nil
		}
		return nil, "", fmt.Errorf("free-running process: %v: %s", err, trunc(se.String(), 300))
	}
	var out [][]string
	if err := json.Unmarshal(b, &out); err != nil {
		return nil, "", fmt.Errorf("free-running process: %v", err)
	}
	for t := range out {
		for i, h := range out[t] {
			raw, err := hex.DecodeString(h)
			if err != nil {
				return nil, "", err
			}
			out[t][i] = string(raw)
		}
	}
	return out, "", nil
}

// freshReference runs every task alone, each in a process of its own (plain
// build), so that the reference cannot be polluted by process-global state
// left behind by other tasks.
func freshReference(genTrace []uint64, ntasks int) ([][]string, error) {
	dir := os.Getenv("VERIF_DIR")
	if dir == "" {
		dir = "/verif"
	}
	bin := filepath.Join(dir, ".build", "vcheck")
	tr, _ := json.Marshal(genTrace)
	out := make([][]string, ntasks)
	for t := 0; t < ntasks; t++ {
		cmd := exec.Command(bin, "conc-ref", strconv.Itoa(t))
		cmd.Stdin = bytes.NewReader(tr)
		cmd.Env = append(os.Environ(), "GOMAXPROCS=1")
		b, err := cmd.Output()
		if err != nil {
			return nil, fmt.Errorf("reference process for task %d: %v", t, err)
		}
		if err := json.Unmarshal(b, &out[t]); err != nil {
			return nil, fmt.Errorf("reference process for task %d: %v", t, err)
		}
		for i, h := range out[t] {
			raw, err := hex.DecodeString(h)
			if err != nil {
				return nil, fmt.Errorf("reference process for task %d: %v", t, err)
			}
			out[t][i] = string(raw)
		}
	}
	return out, nil
}

func (Engine) Run(c *simkit.Choices, x *simkit.Ctx) *simkit.Violation {
	st := x.Stats
	progs, sc, policy := generate(c)
	ntasks := len(progs)
	genTrace := append([]uint64{}, c.Trace...)
	simkit.SetCurrent(sc)

	// concurrent phase first (so that process-global first use of every type
	// happens under contention), run-alone phase afterwards
	raw := make([][][]interface{}, ntasks)
	sched := simkit.NewSched(c, policy)
	for t := 0; t < ntasks; t++ {
		t := t
		sched.Go(func(yield func()) {
			for _, o := range progs[t] {
				raw[t] = append(raw[t], o.run(yield))
				yield()
			}
		})
	}
	sched.Run()
	x.Clock += uint64(sched.Yields)
	var sb strings.Builder
	for i, s := range sched.Schedule {
		if i >= 400 {
			sb.WriteString("…")
			break
		}
		sb.WriteByte('0' + s)
	}
	sc.Schedule, sc.Switches = sb.String(), sched.Switches
	st.Eval(1)
	st.ProbeN("task-switches", sched.Switches)
	st.ProbeN("yields", sched.Yields)
	st.Fault("seeded-task-switch")
	st.State(sched.Digest())
	if sched.Switches > ntasks {
		st.Distinct(simkit.NewDigest().Int(int(sched.Digest())).Str(fmt.Sprint(sc.Tasks)).Sum())
	}

	conc := make([][]string, ntasks)
	for t := range raw {
		for _, parts := range raw[t] {
			conc[t] = append(conc[t], render(parts))
			x.ObserveStr(conc[t][len(conc[t])-1])
		}
	}
	// fresh-process reference (a sample of the runs: one process per task)
	sample := 4
	if x.Thorough {
		sample = 2
	}
	if simkit.NewDigest().Str(fmt.Sprint(genTrace)).Sum()%uint64(sample) == 0 {
		ref, err := freshReference(genTrace, ntasks)
		if err != nil {
			return &simkit.Violation{Kind: "harness", Site: "fresh-reference", Detail: err.Error(), Scenario: sc}
		}
		st.Probe("fresh-process-reference")
		for t := 0; t < ntasks; t++ {
			for i := range progs[t] {
				if i < len(ref[t]) && ref[t][i] != conc[t][i] {
					return &simkit.Violation{Kind: "task-result-differs", Site: progs[t][i].desc.Kind + "/fresh-process",
						Detail: fmt.Sprintf("task %d op %d (%s): among other goroutines %s | alone in a fresh process %s", t, i, progs[t][i].desc.Kind,
							trunc(conc[t][i], 300), trunc(ref[t][i], 300)), Scenario: sc}
				}
			}
		}
	}
	// free-running phase (a sixteenth of the runs, 3 attempts): the same tasks
	// on real threads in a fresh race-instrumented process, compared with the
	// same tasks alone in fresh processes. The one place where the schedule is
	// NOT the simulator's: windows without any seam (type compilation) can only
	// be opened by real parallelism. A difference cannot be a false alarm (the
	// property promises the alone-result whatever the interleaving), but its
	// replay is a retry, not a re-execution (said in the replay file).
	if simkit.NewDigest().Str(fmt.Sprint(genTrace)).Sum()%16 == 1 {
		ref, err := freshReference(genTrace, ntasks)
		if err != nil {
			return &simkit.Violation{Kind: "harness", Site: "fresh-reference", Detail: err.Error(), Scenario: sc}
		}
		attempts := 3
		if x.Thorough {
			attempts = 6
		}
		for a := 0; a < attempts; a++ {
			x.Alive()
			free, report, err := freeRunning(genTrace)
			if err != nil {
				return &simkit.Violation{Kind: "harness", Site: "free-running", Detail: err.Error(), Scenario: sc}
			}
			st.Probe("free-running-attempt")
			st.Fault("real-parallel-first-use")
			if report != "" {
				kind, site := "race", "free-running"
				if !strings.Contains(report, "WARNING: DATA RACE") {
					kind = "fatal"
				}
				for _, l := range strings.Split(report, "\n") {
					if l = strings.TrimSpace(l); strings.HasPrefix(l, "github.com/elastic/go-structform") {
						if i := strings.LastIndexByte(l, '('); i > 0 {
							l = l[:i]
						}
						site = strings.TrimPrefix(l, "github.com/elastic/go-structform") + "/free-running"
						break
					}
				}
				return &simkit.Violation{Kind: kind, Site: site, Detail: "free-running phase (real threads, fresh race-instrumented process; replay retries): " + trunc(report, 3000), Scenario: sc}
			}
			for t := 0; t < ntasks && t < len(free); t++ {
				for i := range progs[t] {
					if i < len(ref[t]) && i < len(free[t]) && ref[t][i] != free[t][i] {
						return &simkit.Violation{Kind: "task-result-differs", Site: progs[t][i].desc.Kind + "/free-running",
							Detail: fmt.Sprintf("free-running phase (real threads, fresh process; replay retries), attempt %d: task %d op %d (%s): in parallel %s | alone in a fresh process %s", a+1, t, i, progs[t][i].desc.Kind,
								trunc(free[t][i], 300), trunc(ref[t][i], 300)), Scenario: sc}
					}
				}
			}
		}
	}
	for t := 0; t < ntasks; t++ {
		for i, o := range progs[t] {
			if o.check != nil {
				if why := o.check(conc[t][i], raw[t][i]); why != "" {
					return &simkit.Violation{Kind: "task-result-wrong", Site: o.desc.Kind,
						Detail: fmt.Sprintf("task %d op %d (%s): %s; result %s", t, i, o.desc.Kind, why, trunc(conc[t][i], 300)), Scenario: sc}
				}
			}
			alone := render(o.run(func() {}))
			if strings.HasPrefix(conc[t][i], "PANIC ") && alone != conc[t][i] {
				return &simkit.Violation{Kind: "panic", Site: o.desc.Kind, Detail: fmt.Sprintf("task %d op %d under contention: %s (alone: %s)", t, i, conc[t][i], trunc(alone, 200)), Scenario: sc}
			}
			if alone != conc[t][i] {
				return &simkit.Violation{Kind: "task-result-differs", Site: o.desc.Kind,
					Detail: fmt.Sprintf("task %d op %d (%s): concurrent %s | alone %s", t, i, o.desc.Kind, trunc(conc[t][i], 300), trunc(alone, 300)), Scenario: sc}
			}
		}
	}
	st.Sample(map[string]interface{}{"tasks": sc.Tasks, "policy": policy, "switches": sched.Switches, "schedule": trunc(sc.Schedule, 80)})
	return nil
}

func trunc(s string, n int) string {
	if len(s) > n {
		return s[:n] + "…"
	}
	return s
}
