package common

import (
	"bytes"
	"encoding/binary"
	"strings"

	"verif/model"
	"verif/simkit"
)

// Extreme shapes: valid documents far outside what value generators produce -
// nesting, lengths and element counts beyond every power-of-two or decimal
// limit an implementation might have picked for a counter, a stack or a guard.
// The property texts quantify over ALL documents; a parser or encoder that
// refuses (or miscounts) beyond some threshold breaks them only out here.

var extremeDepths = []int{1025, 4097, 10001, 32769, 65537, 100001}
var extremeLens = []int{65535, 65536, 65537, 1<<20 + 1, 2<<20 + 3, 3<<20 + 5, 2<<20 + 3, 3<<20 + 5}
var extremeCounts = []int{65535, 65536, 65537, 100001, 262145}

func cborHead(major byte, n int) []byte {
	switch {
	case n < 24:
		return []byte{major<<5 | byte(n)}
	case n < 1<<8:
		return []byte{major<<5 | 24, byte(n)}
	case n < 1<<16:
		b := []byte{major<<5 | 25, 0, 0}
		binary.BigEndian.PutUint16(b[1:], uint16(n))
		return b
	}
	b := []byte{major<<5 | 26, 0, 0, 0, 0}
	binary.BigEndian.PutUint32(b[1:], uint32(n))
	return b
}

func ubLen(n int) []byte {
	switch {
	case n < 1<<7:
		return []byte{'i', byte(n)}
	case n < 1<<15:
		b := []byte{'I', 0, 0}
		binary.BigEndian.PutUint16(b[1:], uint16(n))
		return b
	}
	b := []byte{'l', 0, 0, 0, 0}
	binary.BigEndian.PutUint32(b[1:], uint32(n))
	return b
}

// extremeValue draws one extreme value: its encoding in f and its model value.
func extremeValue(c *simkit.Choices, f model.Format) ([]byte, model.Val, string) {
	var b bytes.Buffer
	kind := c.N(8)
	if kind > 5 {
		kind = 2 // long strings get three shares: most buffering code is about them
	}
	switch kind {
	case 0: // nested arrays
		n := extremeDepths[c.N(len(extremeDepths))]
		v := model.Int(0)
		for i := 0; i < n; i++ {
			v = model.Val{K: model.VArr, A: []model.Val{v}}
		}
		switch f {
		case model.JSON:
			b.WriteString(strings.Repeat("[", n) + "0" + strings.Repeat("]", n))
		case model.CBOR:
			b.Write(bytes.Repeat([]byte{0x81}, n))
			b.WriteByte(0)
		default:
			b.Write(bytes.Repeat([]byte{'['}, n))
			b.Write([]byte{'i', 0})
			b.Write(bytes.Repeat([]byte{']'}, n))
		}
		return b.Bytes(), v, "nested-arrays"
	case 1: // nested objects
		n := extremeDepths[c.N(3)]
		v := model.Int(0)
		for i := 0; i < n; i++ {
			v = model.Val{K: model.VObj, Keys: []string{"a"}, A: []model.Val{v}}
		}
		switch f {
		case model.JSON:
			b.WriteString(strings.Repeat(`{"a":`, n) + "0" + strings.Repeat("}", n))
		case model.CBOR:
			b.Write(bytes.Repeat([]byte{0xa1, 0x61, 'a'}, n))
			b.WriteByte(0)
		default:
			b.Write(bytes.Repeat([]byte{'{', 'i', 1, 'a'}, n))
			b.Write([]byte{'i', 0})
			b.Write(bytes.Repeat([]byte{'}'}, n))
		}
		return b.Bytes(), v, "nested-objects"
	case 2: // one long string, bare or inside a container with something after it
		n := extremeLens[c.N(len(extremeLens))]
		s := strings.Repeat("s", n-1) + []string{"z", "é"}[c.N(2)]
		sv := model.Text(s)
		var enc []byte
		switch f {
		case model.JSON:
			enc = []byte(`"` + s + `"`)
		case model.CBOR:
			enc = append(cborHead(3, len(s)), s...)
		default:
			enc = append(append([]byte{'S'}, ubLen(len(s))...), s...)
		}
		switch c.N(5) {
		case 4: // [<long>, "s0", "s1", ... hundreds of short strings and no number]
			k := []int{200, 257, 300, 600}[c.N(4)]
			v := model.Val{K: model.VArr, A: []model.Val{sv}}
			switch f {
			case model.JSON:
				b.WriteString(`[`)
				b.Write(enc)
			case model.CBOR:
				b.Write(cborHead(4, k+1))
				b.Write(enc)
			default:
				b.WriteByte('[')
				b.Write(enc)
			}
			for i := 0; i < k; i++ {
				t := "value-" + string(rune('a'+i%26)) + string(rune('a'+i/26%26)) + "-abcdef"
				v.A = append(v.A, model.Text(t))
				switch f {
				case model.JSON:
					b.WriteString(`,"` + t + `"`)
				case model.CBOR:
					b.Write(cborHead(3, len(t)))
					b.WriteString(t)
				default:
					b.WriteByte('S')
					b.Write(ubLen(len(t)))
					b.WriteString(t)
				}
			}
			if f != model.CBOR {
				b.WriteByte(']')
			}
			return b.Bytes(), v, "long-string-then-many-strings"
		case 0: // {"a": <long>, "b": 1}: a key right after the long string
			v := model.Val{K: model.VObj, Keys: []string{"a", "b"}, A: []model.Val{sv, model.Int(1)}}
			switch f {
			case model.JSON:
				b.WriteString(`{"a":`)
				b.Write(enc)
				b.WriteString(`,"b":1}`)
			case model.CBOR:
				b.Write([]byte{0xa2, 0x61, 'a'})
				b.Write(enc)
				b.Write([]byte{0x61, 'b', 0x01})
			default:
				b.Write([]byte{'{', 'i', 1, 'a'})
				b.Write(enc)
				b.Write([]byte{'i', 1, 'b', 'i', 1, '}'})
			}
			return b.Bytes(), v, "long-string-then-key"
		case 1: // [<long>, "x", 2]
			v := model.Val{K: model.VArr, A: []model.Val{sv, model.Text("x"), model.Int(2)}}
			switch f {
			case model.JSON:
				b.WriteString(`[`)
				b.Write(enc)
				b.WriteString(`,"x",2]`)
			case model.CBOR:
				b.WriteByte(0x83)
				b.Write(enc)
				b.Write([]byte{0x61, 'x', 0x02})
			default:
				b.WriteByte('[')
				b.Write(enc)
				b.Write([]byte{'S', 'i', 1, 'x', 'i', 2, ']'})
			}
			return b.Bytes(), v, "long-string-in-array"
		}
		return enc, sv, "long-string"
	case 3: // very many elements
		n := extremeCounts[c.N(len(extremeCounts))]
		v := model.Val{K: model.VArr, A: make([]model.Val, n)}
		for i := range v.A {
			v.A[i] = model.Int(int64(i % 10))
		}
		switch f {
		case model.JSON:
			b.WriteByte('[')
			for i := 0; i < n; i++ {
				if i > 0 {
					b.WriteByte(',')
				}
				b.WriteByte(byte('0' + i%10))
			}
			b.WriteByte(']')
		case model.CBOR:
			b.Write(cborHead(4, n))
			for i := 0; i < n; i++ {
				b.WriteByte(byte(i % 10))
			}
		default:
			if c.N(3) == 0 {
				// a typed array of null: 1 + 1 + 5 bytes of header stand for n values
				n = []int{65537, 1<<20 + 1}[c.N(2)]
				v = model.Val{K: model.VArr, A: make([]model.Val, n)}
				b.Write([]byte{'[', '$', 'Z', '#'})
				b.Write(ubLen(n))
				return b.Bytes(), v, "typed-array-of-null"
			}
			if c.Bool() {
				b.Write([]byte{'[', '#'})
				b.Write(ubLen(n))
				for i := 0; i < n; i++ {
					b.Write([]byte{'i', byte(i % 10)})
				}
			} else {
				b.WriteByte('[')
				for i := 0; i < n; i++ {
					b.Write([]byte{'i', byte(i % 10)})
				}
				b.WriteByte(']')
			}
		}
		return b.Bytes(), v, "many-elements"
	case 4: // very many members
		n := extremeCounts[c.N(3)]
		v := model.Val{K: model.VObj, A: make([]model.Val, n), Keys: make([]string, n)}
		key := func(i int) string {
			const d = "0123456789abcdef"
			return string([]byte{'k', d[i>>16&15], d[i>>12&15], d[i>>8&15], d[i>>4&15], d[i&15]})
		}
		for i := range v.A {
			v.A[i], v.Keys[i] = model.Int(1), key(i)
		}
		switch f {
		case model.JSON:
			b.WriteByte('{')
			for i := 0; i < n; i++ {
				if i > 0 {
					b.WriteByte(',')
				}
				b.WriteString(`"` + key(i) + `":1`)
			}
			b.WriteByte('}')
		case model.CBOR:
			b.Write(cborHead(5, n))
			for i := 0; i < n; i++ {
				b.WriteByte(0x66)
				b.WriteString(key(i))
				b.WriteByte(1)
			}
		default:
			b.WriteByte('{')
			for i := 0; i < n; i++ {
				b.Write([]byte{'i', 6})
				b.WriteString(key(i))
				b.Write([]byte{'i', 1})
			}
			b.WriteByte('}')
		}
		return b.Bytes(), v, "many-members"
	default: // one long key
		n := []int{255, 256, 32767, 32768, 65535, 65536, 70000}[c.N(7)]
		k := strings.Repeat("k", n)
		v := model.Val{K: model.VObj, Keys: []string{k}, A: []model.Val{model.Int(1)}}
		switch f {
		case model.JSON:
			b.WriteString(`{"` + k + `":1}`)
		case model.CBOR:
			b.WriteByte(0xa1)
			b.Write(cborHead(3, n))
			b.WriteString(k)
			b.WriteByte(1)
		default:
			b.WriteByte('{')
			b.Write(ubLen(n))
			b.WriteString(k)
			b.Write([]byte{'i', 1, '}'})
		}
		return b.Bytes(), v, "long-key"
	}
}

// ExtremeDoc draws a stream of 1-3 container/string values one of which is
// extreme; the others are small. It returns the document (no token map) and
// the name of the extreme shape.
func ExtremeDoc(c *simkit.Choices, f model.Format) (*model.Doc, string) {
	n := 1 + c.N(3)
	at := c.N(n)
	doc := &model.Doc{Format: string(f)}
	kind := ""
	for i := 0; i < n; i++ {
		var b []byte
		var v model.Val
		if i == at {
			b, v, kind = extremeValue(c, f)
		} else {
			v = model.Val{K: model.VArr, A: []model.Val{model.Int(int64(i))}}
			switch f {
			case model.JSON:
				b = []byte{'[', byte('0' + i), ']'}
			case model.CBOR:
				b = []byte{0x81, byte(i)}
			default:
				b = []byte{'[', 'i', byte(i), ']'}
			}
		}
		if f == model.JSON && i > 0 {
			doc.Bytes = append(doc.Bytes, '\n')
		}
		s := len(doc.Bytes)
		doc.Bytes = append(doc.Bytes, b...)
		doc.Values = append(doc.Values, [2]int{s, len(doc.Bytes)})
		doc.Vals = append(doc.Vals, v)
		doc.OpenEnd = append(doc.OpenEnd, false)
	}
	return doc, kind
}
