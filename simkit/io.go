package simkit

import (
	"errors"
	"io"
)

// ErrStuck is returned by Reader after too many polls that cannot make
// progress (a zero-length destination buffer). It is how a busy-polling pull
// decoder is detected deterministically, without a wall clock.
var ErrStuck = errors.New("simkit: reader polled 1000 times with an empty buffer")

// ErrInjected is the default injected I/O error.
var ErrInjected = errors.New("simkit: injected I/O failure")

// Reader is the simulated transport on the io.Reader seam. Every Read is a
// scheduled event: the number of bytes returned comes from Sizes (cycled; an
// empty plan means "as much as fits"). It deliberately does not implement
// io.WriterTo so that io.Copy really issues read/write pairs.
type Reader struct {
	Data        []byte
	Sizes       []int // read plan; each entry >= 1
	EOFWithData bool  // deliver the final bytes together with io.EOF
	FailAt      int   // if >0: the FailAt-th read (1-based) returns FailErr instead of data
	FailErr     error
	Yield       func() // scheduler hook, called at every read
	Clock       *uint64

	Pos        int
	Reads      int
	EmptyPolls int
	MaxRead    int // largest len(p) seen
	Stuck      bool
	eofSent    bool
	ReadsAfterEOF int
}

func (r *Reader) Read(p []byte) (int, error) {
	r.Reads++
	if r.Clock != nil {
		*r.Clock++
	}
	if r.Yield != nil {
		r.Yield()
	}
	if r.FailAt > 0 && r.Reads >= r.FailAt {
		e := r.FailErr
		if e == nil {
			e = ErrInjected
		}
		return 0, e
	}
	if len(p) == 0 {
		r.EmptyPolls++
		if r.EmptyPolls >= 1000 {
			r.Stuck = true
			return 0, ErrStuck
		}
		return 0, nil
	}
	r.EmptyPolls = 0
	if len(p) > r.MaxRead {
		r.MaxRead = len(p)
	}
	rem := len(r.Data) - r.Pos
	if rem == 0 {
		if r.eofSent {
			r.ReadsAfterEOF++
		}
		r.eofSent = true
		return 0, io.EOF
	}
	n := len(p)
	if len(r.Sizes) > 0 {
		if k := r.Sizes[(r.Reads-1)%len(r.Sizes)]; k >= 1 && k < n {
			n = k
		}
	}
	if n > rem {
		n = rem
	}
	copy(p, r.Data[r.Pos:r.Pos+n])
	r.Pos += n
	if r.Pos == len(r.Data) && r.EOFWithData {
		r.eofSent = true
		return n, io.EOF
	}
	return n, nil
}

// Writer is the simulated sink on the io.Writer seam. It records every write
// and fails permanently from write number FailFrom (0-based; <0 = never).
type Writer struct {
	Buf      []byte
	Writes   int
	Sizes    []int // size of each recorded write
	FailFrom int
	Err      error
	// FailCount selects the byte count a failing write reports together with
	// its error (all legal for an io.Writer): 0 -> 0, 1 -> len(p), 2 -> len(p)/2.
	FailCount int
	Failed    int // number of failed writes delivered
	Yield    func() // called before p is consumed (a blocked writer)
	Clock    *uint64
	KeepSizes bool
}

func NewWriter() *Writer { return &Writer{FailFrom: -1} }

func (w *Writer) Write(p []byte) (int, error) {
	idx := w.Writes
	w.Writes++
	if w.Clock != nil {
		*w.Clock++
	}
	if w.Yield != nil {
		w.Yield()
	}
	if w.FailFrom >= 0 && idx >= w.FailFrom {
		w.Failed++
		e := w.Err
		if e == nil {
			e = ErrInjected
		}
		switch w.FailCount {
		case 1:
			return len(p), e
		case 2:
			return len(p) / 2, e
		}
		return 0, e
	}
	w.Buf = append(w.Buf, p...)
	if w.KeepSizes {
		w.Sizes = append(w.Sizes, len(p))
	}
	return len(p), nil
}

func (w *Writer) Reset() {
	w.Buf = w.Buf[:0]
	w.Writes = 0
	w.Sizes = w.Sizes[:0]
	w.Failed = 0
}

// Feed delivers doc to w cut at the given ascending positions (duplicates
// produce empty writes). Each chunk is copied into a scratch buffer owned by
// the simulator; with scribble the scratch buffer is overwritten with 0xA5 as
// soon as Write returns, as a caller reusing its buffer would.
// It returns the index of the failing chunk (or -1) and the error.
func Feed(w io.Writer, doc []byte, cuts []int, scribble bool, clock *uint64, after ...func(chunk int)) (int, error) {
	var scratch []byte
	prev := 0
	write := func(i int, chunk []byte) error {
		if cap(scratch) < len(chunk) {
			scratch = make([]byte, len(chunk))
		}
		// capacity clamped to the length: a parser that slices or re-slices
		// beyond what it was given panics instead of reading stale bytes
		buf := scratch[:len(chunk):len(chunk)]
		copy(buf, chunk)
		if clock != nil {
			*clock++
		}
		_, err := w.Write(buf)
		for _, f := range after {
			f(i)
		}
		if scribble {
			for j := range buf {
				buf[j] = 0xA5
			}
		}
		return err
	}
	for i, c := range cuts {
		if c < prev {
			c = prev
		}
		if c > len(doc) {
			c = len(doc)
		}
		if err := write(i, doc[prev:c]); err != nil {
			return i, err
		}
		prev = c
	}
	if err := write(len(cuts), doc[prev:]); err != nil {
		return len(cuts), err
	}
	return -1, nil
}

// Exact returns a copy of b whose capacity equals its length, so that a
// library slicing beyond the bytes it was given panics instead of reading
// whatever the allocator left behind them.
func Exact(b []byte) []byte {
	out := make([]byte, len(b))
	copy(out, b)
	return out
}
