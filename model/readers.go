package model

import (
	"bytes"
	"encoding/binary"
	"encoding/json"
	"errors"
	"fmt"
	"io"
	"math"
	"strconv"
	"strings"
	"unicode/utf8"
)

// ---- independent reference readers (share no code with the library) --------

var errTrunc = errors.New("reference reader: unexpected end of input")

// ReadCBOR decodes a concatenated sequence of RFC 7049 items (the subset
// described in DESIGN App. C). Anything else is an error.
func ReadCBOR(b []byte) ([]Val, error) {
	var out []Val
	for len(b) > 0 {
		v, rest, err := cborItem(b, 0)
		if err != nil {
			return out, err
		}
		out = append(out, v)
		b = rest
	}
	return out, nil
}

func cborArg(b []byte) (arg uint64, indef bool, rest []byte, err error) {
	ai := b[0] & 0x1f
	b = b[1:]
	switch {
	case ai < 24:
		return uint64(ai), false, b, nil
	case ai == 24:
		if len(b) < 1 {
			return 0, false, nil, errTrunc
		}
		return uint64(b[0]), false, b[1:], nil
	case ai == 25:
		if len(b) < 2 {
			return 0, false, nil, errTrunc
		}
		return uint64(binary.BigEndian.Uint16(b)), false, b[2:], nil
	case ai == 26:
		if len(b) < 4 {
			return 0, false, nil, errTrunc
		}
		return uint64(binary.BigEndian.Uint32(b)), false, b[4:], nil
	case ai == 27:
		if len(b) < 8 {
			return 0, false, nil, errTrunc
		}
		return binary.BigEndian.Uint64(b), false, b[8:], nil
	case ai == 31:
		return 0, true, b, nil
	}
	return 0, false, nil, fmt.Errorf("reference reader: reserved additional information %d", ai)
}

func cborItem(b []byte, depth int) (Val, []byte, error) {
	beat()
	if len(b) == 0 {
		return Val{}, nil, errTrunc
	}
	if depth > 1<<21 {
		return Val{}, nil, errors.New("reference reader: nesting too deep")
	}
	major := b[0] >> 5
	if major == 7 {
		switch b[0] {
		case 0xf4:
			return Bool(false), b[1:], nil
		case 0xf5:
			return Bool(true), b[1:], nil
		case 0xf6:
			return Val{K: VNull}, b[1:], nil
		case 0xf7:
			return Val{K: VUndef}, b[1:], nil
		case 0xfa:
			if len(b) < 5 {
				return Val{}, nil, errTrunc
			}
			return Val{K: VF32, F: uint64(binary.BigEndian.Uint32(b[1:]))}, b[5:], nil
		case 0xfb:
			if len(b) < 9 {
				return Val{}, nil, errTrunc
			}
			return Val{K: VF64, F: binary.BigEndian.Uint64(b[1:])}, b[9:], nil
		}
		return Val{}, nil, fmt.Errorf("reference reader: unsupported simple/float %#x", b[0])
	}
	arg, indef, rest, err := cborArg(b)
	if err != nil {
		return Val{}, nil, err
	}
	switch major {
	case 0:
		if indef {
			return Val{}, nil, errors.New("reference reader: indefinite integer")
		}
		return Uint(arg), rest, nil
	case 1:
		if indef {
			return Val{}, nil, errors.New("reference reader: indefinite integer")
		}
		return Val{K: VInt, Neg: true, U: arg}, rest, nil
	case 2, 3:
		if indef {
			return Val{}, nil, errors.New("reference reader: indefinite-length string (outside the subset)")
		}
		if uint64(len(rest)) < arg {
			return Val{}, nil, errTrunc
		}
		s := string(rest[:arg])
		if major == 3 {
			return Text(s), rest[arg:], nil
		}
		return Val{K: VBytes, S: s}, rest[arg:], nil
	case 4:
		v := Val{K: VArr, A: []Val{}}
		for i := uint64(0); indef || i < arg; i++ {
			if indef {
				if len(rest) == 0 {
					return Val{}, nil, errTrunc
				}
				if rest[0] == 0xff {
					rest = rest[1:]
					break
				}
			}
			var e Val
			e, rest, err = cborItem(rest, depth+1)
			if err != nil {
				return Val{}, nil, err
			}
			v.A = append(v.A, e)
		}
		return v, rest, nil
	case 5:
		v := Val{K: VObj, A: []Val{}}
		for i := uint64(0); indef || i < arg; i++ {
			if len(rest) == 0 {
				return Val{}, nil, errTrunc
			}
			if indef && rest[0] == 0xff {
				rest = rest[1:]
				break
			}
			if rest[0]>>5 != 3 {
				return Val{}, nil, errors.New("reference reader: non-text map key (outside the subset)")
			}
			var k, e Val
			k, rest, err = cborItem(rest, depth+1)
			if err != nil {
				return Val{}, nil, err
			}
			e, rest, err = cborItem(rest, depth+1)
			if err != nil {
				return Val{}, nil, err
			}
			v.Keys = append(v.Keys, k.S)
			v.A = append(v.A, e)
		}
		return v, rest, nil
	}
	return Val{}, nil, errors.New("reference reader: tag (outside the subset)")
}

// ReadUBJSON decodes a concatenated sequence of UBJSON draft-12 values.
func ReadUBJSON(b []byte) ([]Val, error) {
	var out []Val
	for len(b) > 0 {
		if b[0] == 'N' {
			b = b[1:]
			continue
		}
		v, rest, err := ubValue(b[0], b[1:], 0)
		if err != nil {
			return out, err
		}
		out = append(out, v)
		b = rest
	}
	return out, nil
}

func ubInt(m byte, b []byte) (int64, []byte, error) {
	need := map[byte]int{'i': 1, 'U': 1, 'I': 2, 'l': 4, 'L': 8}[m]
	if need == 0 {
		return 0, nil, fmt.Errorf("reference reader: %q is no integer marker", m)
	}
	if len(b) < need {
		return 0, nil, errTrunc
	}
	switch m {
	case 'i':
		return int64(int8(b[0])), b[1:], nil
	case 'U':
		return int64(b[0]), b[1:], nil
	case 'I':
		return int64(int16(binary.BigEndian.Uint16(b))), b[2:], nil
	case 'l':
		return int64(int32(binary.BigEndian.Uint32(b))), b[4:], nil
	}
	return int64(binary.BigEndian.Uint64(b)), b[8:], nil
}

func ubLength(b []byte) (int, []byte, error) {
	if len(b) == 0 {
		return 0, nil, errTrunc
	}
	n, rest, err := ubInt(b[0], b[1:])
	if err != nil {
		return 0, nil, err
	}
	if n < 0 {
		return 0, nil, errors.New("reference reader: negative length")
	}
	return int(n), rest, nil
}

func ubString(b []byte) (string, []byte, error) {
	n, rest, err := ubLength(b)
	if err != nil {
		return "", nil, err
	}
	if len(rest) < n {
		return "", nil, errTrunc
	}
	return string(rest[:n]), rest[n:], nil
}

// ubValue decodes the payload of a value whose marker m has been consumed.
func ubValue(m byte, b []byte, depth int) (Val, []byte, error) {
	beat()
	if depth > 1<<21 {
		return Val{}, nil, errors.New("reference reader: nesting too deep")
	}
	switch m {
	case 'Z':
		return Val{K: VNull}, b, nil
	case 'T':
		return Bool(true), b, nil
	case 'F':
		return Bool(false), b, nil
	case 'i', 'U', 'I', 'l', 'L':
		n, rest, err := ubInt(m, b)
		return Int(n), rest, err
	case 'C':
		if len(b) < 1 {
			return Val{}, nil, errTrunc
		}
		return Val{K: VChar, U: uint64(b[0])}, b[1:], nil
	case 'd':
		if len(b) < 4 {
			return Val{}, nil, errTrunc
		}
		return Val{K: VF32, F: uint64(binary.BigEndian.Uint32(b))}, b[4:], nil
	case 'D':
		if len(b) < 8 {
			return Val{}, nil, errTrunc
		}
		return Val{K: VF64, F: binary.BigEndian.Uint64(b)}, b[8:], nil
	case 'S', 'H':
		s, rest, err := ubString(b)
		if err != nil {
			return Val{}, nil, err
		}
		if m == 'H' {
			return Val{K: VHighPrec, S: s}, rest, nil
		}
		return Text(s), rest, nil
	case '[', '{':
		var tm byte
		count := -1
		if len(b) > 0 && b[0] == '$' {
			if len(b) < 2 {
				return Val{}, nil, errTrunc
			}
			tm = b[1]
			b = b[2:]
			if len(b) == 0 {
				return Val{}, nil, errTrunc
			}
			if b[0] != '#' {
				return Val{}, nil, errors.New("reference reader: typed container without count")
			}
		}
		if len(b) > 0 && b[0] == '#' {
			n, rest, err := ubLength(b[1:])
			if err != nil {
				return Val{}, nil, err
			}
			count, b = n, rest
		}
		v := Val{K: VArr, A: []Val{}}
		if m == '{' {
			v.K = VObj
		}
		for i := 0; count < 0 || i < count; i++ {
			if count < 0 {
				// no-ops are only skipped where a type marker is expected
				for m == '[' && len(b) > 0 && b[0] == 'N' {
					b = b[1:]
				}
				if len(b) == 0 {
					return Val{}, nil, errTrunc
				}
				if (m == '[' && b[0] == ']') || (m == '{' && b[0] == '}') {
					b = b[1:]
					break
				}
			}
			if m == '{' {
				k, rest, err := ubString(b)
				if err != nil {
					return Val{}, nil, err
				}
				v.Keys = append(v.Keys, k)
				b = rest
			}
			em := tm
			if em == 0 {
				for len(b) > 0 && b[0] == 'N' {
					b = b[1:]
				}
				if len(b) == 0 {
					return Val{}, nil, errTrunc
				}
				em, b = b[0], b[1:]
			}
			e, rest, err := ubValue(em, b, depth+1)
			if err != nil {
				return Val{}, nil, err
			}
			v.A = append(v.A, e)
			b = rest
		}
		return v, b, nil
	}
	return Val{}, nil, fmt.Errorf("reference reader: unknown marker %#x", m)
}

// ReadJSON decodes a whitespace-separated stream of JSON texts with
// encoding/json's token stream (UseNumber, order preserving).
func ReadJSON(b []byte) ([]Val, error) {
	if !utf8.Valid(b) {
		return nil, errors.New("reference reader: invalid UTF-8")
	}
	dec := json.NewDecoder(bytes.NewReader(b))
	dec.UseNumber()
	var out []Val
	for {
		v, err := jsonValue(dec)
		if err == io.EOF {
			return out, nil
		}
		if err != nil {
			return out, err
		}
		out = append(out, v)
	}
}

func jsonValue(dec *json.Decoder) (Val, error) {
	tok, err := dec.Token()
	if err != nil {
		return Val{}, err
	}
	return jsonFromToken(dec, tok)
}

func jsonFromToken(dec *json.Decoder, tok json.Token) (Val, error) {
	switch t := tok.(type) {
	case nil:
		return Val{K: VNull}, nil
	case bool:
		return Bool(t), nil
	case string:
		return Text(t), nil
	case json.Number:
		return JSONNumber(string(t)), nil
	case json.Delim:
		switch t {
		case '[':
			v := Val{K: VArr, A: []Val{}}
			for dec.More() {
				e, err := jsonValue(dec)
				if err != nil {
					return Val{}, err
				}
				v.A = append(v.A, e)
			}
			if _, err := dec.Token(); err != nil {
				return Val{}, err
			}
			return v, nil
		case '{':
			v := Val{K: VObj, A: []Val{}}
			for dec.More() {
				kt, err := dec.Token()
				if err != nil {
					return Val{}, err
				}
				k, ok := kt.(string)
				if !ok {
					return Val{}, errors.New("reference reader: non-string key")
				}
				e, err := jsonValue(dec)
				if err != nil {
					return Val{}, err
				}
				v.Keys = append(v.Keys, k)
				v.A = append(v.A, e)
			}
			if _, err := dec.Token(); err != nil {
				return Val{}, err
			}
			return v, nil
		}
	}
	return Val{}, fmt.Errorf("reference reader: unexpected token %v", tok)
}

// JSONNumber classifies a JSON number literal: integer syntax within
// [-2^63, 2^64-1] is an integer, everything else stays a literal.
func JSONNumber(lit string) Val {
	if lit != "-0" && !strings.ContainsAny(lit, ".eE") {
		if strings.HasPrefix(lit, "-") {
			if i, err := strconv.ParseInt(lit, 10, 64); err == nil {
				return Int(i)
			}
		} else if u, err := strconv.ParseUint(lit, 10, 64); err == nil {
			return Uint(u)
		}
	}
	return Val{K: VNum, S: lit}
}

// ---- the value relation of C08 (DESIGN App. C) ------------------------------

// Equiv reports whether dst (decoded from the target document of format df)
// carries the value of src (the source value of format sf) up to the target
// format's documented representation rules. why explains a mismatch.
func Equiv(src, dst Val, sf, df Format) (ok bool, why string) {
	fail := func(f string, a ...interface{}) (bool, string) {
		return false, fmt.Sprintf(f, a...) + fmt.Sprintf(" [source %s | target %s]", clip(src.String()), clip(dst.String()))
	}
	switch src.K {
	case VNull, VUndef:
		if dst.K == VNull {
			return true, ""
		}
		return fail("null expected")
	case VBool:
		if dst.K == VBool && dst.B == src.B {
			return true, ""
		}
		return fail("boolean differs")
	case VText:
		if dst.K == VText && dst.S == src.S {
			return true, ""
		}
		return fail("text differs")
	case VHighPrec:
		// delivered as its decimal string
		if dst.K == VText && dst.S == src.S {
			return true, ""
		}
		return fail("high-precision number must arrive as its decimal string")
	case VChar:
		return Equiv(Uint(src.U), dst, sf, df)
	case VInt:
		switch dst.K {
		case VInt:
			if dst.Neg == src.Neg && dst.U == src.U {
				return true, ""
			}
			return fail("integer differs")
		case VChar:
			if !src.Neg && src.U == dst.U {
				return true, ""
			}
			return fail("integer differs")
		case VHighPrec:
			if df == UBJSON && !src.Neg && src.U > math.MaxInt64 && dst.S == src.IntString() {
				return true, ""
			}
			return fail("integer differs")
		}
		return fail("integer expected")
	case VF32, VF64:
		bits := 64
		if src.K == VF32 {
			bits = 32
		}
		if df == JSON {
			if dst.K != VNum && dst.K != VInt {
				return fail("number expected")
			}
			lit := dst.S
			if dst.K == VInt {
				lit = dst.IntString()
			}
			f, err := strconv.ParseFloat(lit, bits)
			if err != nil {
				return fail("target literal does not parse: %v", err)
			}
			if bits == 32 {
				if uint64(math.Float32bits(float32(f))) == src.F {
					return true, ""
				}
				// -0 is written as -0 and read back as such
				return fail("float32 does not round-trip through %q", lit)
			}
			if math.Float64bits(f) == src.F {
				return true, ""
			}
			return fail("float64 does not round-trip through %q", lit)
		}
		if dst.K == src.K && dst.F == src.F {
			return true, ""
		}
		return fail("float differs (width or bits)")
	case VNum:
		// JSON literal with fraction/exponent (or out of the 64-bit range)
		want, err := strconv.ParseFloat(src.S, 64)
		if err != nil {
			return true, "" // overflowing literal: anything goes (may be refused)
		}
		if df == JSON {
			if dst.K != VNum && dst.K != VInt {
				return fail("number expected")
			}
			lit := dst.S
			if dst.K == VInt {
				lit = dst.IntString()
			}
			got, err := strconv.ParseFloat(lit, 64)
			if err == nil && math.Float64bits(got) == math.Float64bits(want) {
				return true, ""
			}
			return fail("number differs")
		}
		if dst.K == VF64 && dst.F == math.Float64bits(want) {
			return true, ""
		}
		return fail("float64 %v expected", want)
	case VBytes:
		// byte strings arrive as arrays of their bytes
		if dst.K != VArr || len(dst.A) != len(src.S) {
			return fail("byte string must arrive as an array of %d integers", len(src.S))
		}
		for i := 0; i < len(src.S); i++ {
			if ok, _ := Equiv(Uint(uint64(src.S[i])), dst.A[i], sf, df); !ok {
				return fail("byte %d differs", i)
			}
		}
		return true, ""
	case VArr:
		if dst.K != VArr || len(dst.A) != len(src.A) {
			return fail("array of %d elements expected", len(src.A))
		}
		for i := range src.A {
			if ok, why := Equiv(src.A[i], dst.A[i], sf, df); !ok {
				return false, fmt.Sprintf("[%d]: %s", i, why)
			}
		}
		return true, ""
	case VObj:
		if dst.K != VObj || len(dst.A) != len(src.A) {
			return fail("object of %d members expected", len(src.A))
		}
		for i := range src.A {
			if dst.Keys[i] != src.Keys[i] {
				return fail("member %d: key %q expected, got %q", i, src.Keys[i], dst.Keys[i])
			}
			if ok, why := Equiv(src.A[i], dst.A[i], sf, df); !ok {
				return false, fmt.Sprintf("[%q]: %s", src.Keys[i], why)
			}
		}
		return true, ""
	}
	return fail("unknown source kind")
}

func clip(s string) string {
	if len(s) > 160 {
		return s[:160] + "…"
	}
	return s
}

// HasNonFinite reports whether a value contains NaN or an infinity.
func HasNonFinite(v Val) bool {
	switch v.K {
	case VF32:
		f := math.Float32frombits(uint32(v.F))
		return f != f || math.IsInf(float64(f), 0)
	case VF64:
		f := math.Float64frombits(v.F)
		return f != f || math.IsInf(f, 0)
	case VArr, VObj:
		for _, e := range v.A {
			if HasNonFinite(e) {
				return true
			}
		}
	}
	return false
}

// NonFiniteToNull returns v with every NaN and infinity replaced by null (what
// the JSON encoder documents for SetIgnoreInvalidFloat(true)).
func NonFiniteToNull(v Val) Val {
	switch v.K {
	case VF32, VF64:
		if HasNonFinite(v) {
			return Val{K: VNull}
		}
	case VArr, VObj:
		out := v
		out.A = make([]Val, len(v.A))
		for i, e := range v.A {
			out.A[i] = NonFiniteToNull(e)
		}
		return out
	}
	return v
}
