module verif

go 1.21

require github.com/elastic/go-structform v0.0.0

replace github.com/elastic/go-structform => /repo
