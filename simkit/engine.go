package simkit

import "sync/atomic"

// Ctx is the per-run context handed to an engine.
type Ctx struct {
	Stats    *Stats
	Thorough bool
	Clock    uint64 // logical time: one tick per seam crossing
	// Skip names trigger predicates of open known findings: generators steer
	// around scenarios matching them.
	Skip map[string]bool
	// Beat, if set, tells the watchdog that the run is alive (long runs on
	// long documents call it between schedules).
	Beat func()
	// Obs is a digest of what the run observed (outputs, events, results); it
	// is part of the per-run digest compared by the determinism self-test.
	Obs uint64
}

// Alive signals progress to the watchdog.
func (x *Ctx) Alive() {
	if x != nil && x.Beat != nil {
		x.Beat()
	}
}

// Observe folds observed output into the run digest.
func (x *Ctx) Observe(b []byte) {
	h := x.Obs ^ 14695981039346656037
	for _, c := range b {
		h = (h ^ uint64(c)) * 1099511628211
	}
	x.Obs = h*1099511628211 + uint64(len(b))
}

func (x *Ctx) ObserveStr(s string) { x.Observe([]byte(s)) }

// Engine explores one run: it draws a scenario from c, executes it against
// the real library under the simulated environment and evaluates the oracle.
type Engine interface {
	Run(c *Choices, x *Ctx) *Violation
}

// ScenarioReplayer is implemented by engines that can re-execute an explicit
// scenario record (used for the canonical replays of known findings, which
// must not depend on the generators).
type ScenarioReplayer interface {
	ReplayScenario(raw []byte, x *Ctx) (*Violation, error)
}

type EngineFunc func(c *Choices, x *Ctx) *Violation

func (f EngineFunc) Run(c *Choices, x *Ctx) *Violation { return f(c, x) }

// current scenario, published before risky library calls so that the
// watchdog can say what wedged the process.
var current atomicValue

type atomicValue struct{ v atomic.Value }

type curBox struct{ v interface{} }

// SetCurrent publishes the scenario about to be executed.
func SetCurrent(s interface{}) { current.v.Store(curBox{s}) }

// Current returns the last published scenario.
func Current() interface{} {
	if b, ok := current.v.Load().(curBox); ok {
		return b.v
	}
	return nil
}

// Depths returns the nesting-stack depths of a library instance through the
// verif-tag hook, if the hook is compiled in (ok=false otherwise: the
// idle-depth sub-checks are then skipped, nothing else changes).
func Depths(inst interface{}) (d []int, ok bool) {
	if h, is := inst.(interface{ VerifDepths() []int }); is {
		return h.VerifDepths(), true
	}
	return nil, false
}
