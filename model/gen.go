package model

import (
	"math"
	"strconv"
	"strings"

	"verif/simkit"
)

type Format string

const (
	JSON   Format = "json"
	CBOR   Format = "cborl"
	UBJSON Format = "ubjson"
)

var Formats = []Format{JSON, UBJSON, CBOR}

// GenOpts bound a generated value.
type GenOpts struct {
	MaxDepth int
	MaxElems int // per container
	Budget   int // total node budget
	MaxStr   int // longest string
	// Supported restricts CBOR values to the library's documented subset.
	TopContainer bool // top-level value must be a container
	// Big occasionally (1 run in ~40) draws one string/key/container whose
	// length sits at a wire-format width boundary (255/256, 65535/65536).
	Big bool
}

func QuickOpts() GenOpts { return GenOpts{MaxDepth: 4, MaxElems: 5, Budget: 14, MaxStr: 80, Big: true} }
func ThoroughOpts() GenOpts {
	return GenOpts{MaxDepth: 40, MaxElems: 12, Budget: 60, MaxStr: 700, Big: true}
}

var intBoundaries = []int64{0, 1, -1, 23, 24, -24, -25, 127, 128, -128, -129, 255, 256, -256, -257,
	32767, 32768, -32768, -32769, 65535, 65536, -65536, -65537,
	math.MaxInt32, math.MaxInt32 + 1, math.MinInt32, math.MinInt32 - 1,
	math.MaxUint32, math.MaxUint32 + 1, -math.MaxUint32 - 1, -math.MaxUint32 - 2,
	math.MaxInt64, math.MaxInt64 - 1, math.MinInt64, math.MinInt64 + 1, 200, -200, 1000, -1000}

// GenInt draws an integer in the int64 range, with boundary values raised.
func GenInt(c *simkit.Choices) Val {
	switch c.N(4) {
	case 0:
		return Int(int64(c.N(25)))
	case 1:
		b := intBoundaries[c.N(len(intBoundaries))]
		d := int64(c.N(3)) - 1
		if (d > 0 && b > math.MaxInt64-d) || (d < 0 && b < math.MinInt64-d) {
			d = 0
		}
		return Int(b + d)
	case 2:
		bits := uint(c.N(63)) + 1
		v := int64(c.U64(0) >> (64 - bits))
		if c.Bool() {
			v = -v - 1
		}
		return Int(v)
	default:
		return Int(int64(c.N(2000)) - 1000)
	}
}

// GenUintBig draws an unsigned integer above MaxInt64.
func GenUintBig(c *simkit.Choices) Val {
	switch c.N(3) {
	case 0:
		return Uint(math.MaxUint64 - uint64(c.N(2)))
	case 1:
		return Uint(uint64(math.MaxInt64) + 1 + uint64(c.N(2)))
	default:
		return Uint(uint64(math.MaxInt64) + 1 + c.U64(uint64(math.MaxInt64)))
	}
}

var f64Specials = []float64{0, math.Copysign(0, -1), 1, -1, 0.5, 3.14, -3.14, 7e9, 1e21, 1e-7, 123456789.125,
	math.MaxFloat64, math.SmallestNonzeroFloat64, 5e-324, 2.2250738585072014e-308, 1.7976931348623157e308,
	0.1, 0.30000000000000004, 9007199254740993, 1e15, 1e16, 100, 4.35, 1.0e100}

// GenF64 draws a finite float64 (non-finite only when allowNonFinite).
func GenF64(c *simkit.Choices, allowNonFinite bool) Val {
	switch c.N(4) {
	case 0, 1:
		return F64(f64Specials[c.N(len(f64Specials))])
	case 2:
		if allowNonFinite {
			switch c.N(4) {
			case 0:
				return F64(math.Inf(1))
			case 1:
				return F64(math.Inf(-1))
			case 2:
				return Val{K: VF64, F: 0x7ff8000000000001}
			}
		}
		return F64(float64(c.N(100000)) / 64)
	default:
		bits := c.U64(0)
		f := math.Float64frombits(bits)
		if math.IsNaN(f) || math.IsInf(f, 0) {
			if !allowNonFinite {
				return F64(1.5)
			}
		}
		return Val{K: VF64, F: bits}
	}
}

func GenF32(c *simkit.Choices, allowNonFinite bool) Val {
	switch c.N(3) {
	case 0:
		f := float32(f64Specials[c.N(12)])
		if math.IsInf(float64(f), 0) && !allowNonFinite {
			f = math.MaxFloat32
		}
		return F32(f)
	case 1:
		return F32(float32(c.N(100000)) / 64)
	default:
		bits := uint32(c.U64(1 << 32))
		f := math.Float32frombits(bits)
		if f != f || math.IsInf(float64(f), 0) {
			if !allowNonFinite {
				return F32(2.5)
			}
		}
		return Val{K: VF32, F: uint64(bits)}
	}
}

var strLenBoundaries = []int{0, 1, 2, 3, 22, 23, 24, 25, 55, 56, 57, 62, 63, 64, 65, 66, 70, 71, 72, 127, 128, 129, 255, 256, 257}

// markerLens: lengths whose single length byte equals a marker byte of a wire
// format (UBJSON '#' '$' 'C' 'D' 'F' 'H' 'I' 'L' 'N' 'S' 'T' 'U' 'Z' '[' ']'
// 'd' 'i' 'l' '{' '}'): a parser that looks at the first byte of a resumed
// chunk without remembering that a length is pending reads the length of a
// 125-byte key as the end of the object.
var markerLens = []int{35, 36, 67, 68, 70, 72, 73, 76, 78, 83, 84, 85, 90, 91, 93, 100, 105, 108, 123, 125, 125, 93}

var strLenBig = []int{300, 511, 512, 513, 1000, 4095, 4096, 4097, 32767, 32768, 65535, 65536}

var runePool = []string{"\u00e9", "\u00df", "\u0436", "\u4e2d", "\u20ac", "\u2028", "\u2029", "\U0001F600", "\U0001D11E", "\u00a0", "\u0085", "\ufeff", "\ufffd", "\u07ff", "\u0800", "\uffff", "\U00010000", "\U0010ffff"}
var asciiSpecial = []string{"\"", "\\", "/", "\b", "\f", "\n", "\r", "\t", "\x00", "\x1f", "\x7f", "<", ">", "&", "'", " ", "{", "}", "[", "]", ",", ":", "#", "$", "N"}

// StrClass selects the alphabet of generated text.
type StrClass int

const (
	StrAny StrClass = iota
	StrASCII
)

var specialOffsets = []int{0, 1, 2, 3, 5, 6, 7, 8, 13, 14, 15, 16, 17, 29, 30, 31, 32, 33, 54, 55, 56, 57, 58, 59, 60, 61, 62, 63, 64, 65, 66,
	125, 126, 127, 128, 129, 130, 248, 249, 250, 251, 252, 253, 254, 255, 256, 257, 258, 509, 510, 511, 512, 513, 514,
	1021, 1022, 1023, 1024, 1025, 1026, 4093, 4094, 4095, 4096, 4097, 4098}

// genSpecialAtOffset builds N plain bytes, one character that needs special
// treatment somewhere (escape, multi-byte rune, U+2028...), and a short tail:
// buffer-edge conditions in encoders and parsers depend on the exact offset.
func genSpecialAtOffset(c *simkit.Choices, maxLen int) string {
	n := specialOffsets[c.N(len(specialOffsets))]
	if n+8 > maxLen {
		n = c.N(maxLen + 1)
	}
	var sb strings.Builder
	sb.WriteString(strings.Repeat(string(rune('a'+c.N(26))), n))
	if c.Bool() {
		sb.WriteString(asciiSpecial[c.N(len(asciiSpecial))])
	} else {
		sb.WriteString(runePool[c.N(len(runePool))])
	}
	for i, k := 0, c.N(4); i < k; i++ {
		sb.WriteByte(byte('a' + c.N(26)))
	}
	return sb.String()
}

// GenText draws a valid UTF-8 string; length is in bytes (approximately).
func GenText(c *simkit.Choices, maxLen int) string {
	if maxLen >= 24 && c.N(16) == 0 {
		max := maxLen
		if max < 300 && c.N(3) == 0 {
			max = 300 // the 250-258 edge also in the quick tier, now and then
		}
		return genSpecialAtOffset(c, max)
	}
	var n int
	switch c.N(8) {
	case 0, 1, 2:
		n = c.N(6)
	case 3, 4:
		n = c.N(20)
	case 5:
		n = strLenBoundaries[c.N(len(strLenBoundaries))]
	case 6:
		n = strLenBoundaries[c.N(len(strLenBoundaries))]
		if maxLen >= 64 && c.N(3) == 0 {
			n = markerLens[c.N(len(markerLens))]
			if n > maxLen {
				maxLen = n // (at most 125 bytes)
			}
		}
	default:
		if maxLen > 257 {
			n = strLenBig[c.N(len(strLenBig))]
		} else {
			n = c.N(maxLen + 1)
		}
	}
	if n > maxLen {
		n = maxLen
	}
	// alphabet mix for this string
	mix := c.N(5) // 0: plain ascii, 1: ascii + specials, 2: + multi-byte, 3: heavy multi-byte/escapes, 4: single repeated char
	var sb strings.Builder
	if mix == 4 {
		ch := byte('a' + c.N(26))
		for sb.Len() < n {
			sb.WriteByte(ch)
		}
		return sb.String()
	}
	for sb.Len() < n {
		r := c.N(16)
		switch {
		case mix == 0 || r < 8 && mix < 3:
			sb.WriteByte(byte('a' + c.N(26)))
		case mix == 1 || r < 11:
			sb.WriteString(asciiSpecial[c.N(len(asciiSpecial))])
		default:
			sb.WriteString(runePool[c.N(len(runePool))])
		}
	}
	s := sb.String()
	return s
}

// GenKey draws an object key (mostly short; empty allowed).
func GenKey(c *simkit.Choices, maxLen int) string {
	switch c.N(8) {
	case 0:
		return ""
	case 1, 2, 3:
		return string(rune('a' + c.N(4)))
	case 4, 5:
		n := 2 + c.N(6)
		var sb strings.Builder
		for i := 0; i < n; i++ {
			sb.WriteByte(byte('a' + c.N(26)))
		}
		return sb.String()
	case 6:
		if maxLen >= 24 && c.Bool() {
			// (not clipped to maxLen: at most 125 bytes)
			return strings.Repeat(string(rune('a'+c.N(26))), markerLens[c.N(len(markerLens))])
		}
		return GenText(c, maxLen)
	default:
		return GenText(c, maxLen)
	}
}

// GenBytes draws an arbitrary byte string.
func GenBytes(c *simkit.Choices, maxLen int) string {
	n := 0
	switch c.N(4) {
	case 0:
		n = c.N(4)
	case 1:
		n = c.N(30)
	default:
		n = strLenBoundaries[c.N(len(strLenBoundaries))]
	}
	if n > maxLen {
		n = maxLen
	}
	b := make([]byte, n)
	mode := c.N(3)
	for i := range b {
		switch mode {
		case 0:
			b[i] = byte(c.N(256))
		case 1:
			b[i] = byte(i)
		default:
			b[i] = byte(0xf0 + c.N(16))
		}
	}
	return string(b)
}

type genState struct {
	c      *simkit.Choices
	f      Format
	o      GenOpts
	budget int
	big    int // 0: not decided, 1: this document gets one boundary-sized item, 2: done / none
}

var bigLens = []int{255, 256, 257, 127, 128, 255, 256, 1000, 255, 256, 257, 128, 65535, 65536, 65537, 300}

// bigLen returns a boundary length once per document (else -1).
func (g *genState) bigLen() int {
	if !g.o.Big || g.big == 2 {
		return -1
	}
	if g.big == 0 {
		g.big = 2
		if g.c.N(60) == 0 {
			g.big = 1
		}
	}
	if g.big == 1 && g.c.N(3) == 0 {
		g.big = 2
		return bigLens[g.c.N(len(bigLens))]
	}
	return -1
}

func repeatText(c *simkit.Choices, n int) string {
	unit := []string{"a", "ab", "\u00e9", "x\"y", "\n"}[c.N(5)]
	var sb strings.Builder
	for sb.Len()+len(unit) <= n {
		sb.WriteString(unit)
	}
	for sb.Len() < n {
		sb.WriteByte('z')
	}
	return sb.String()
}

// GenVal draws a value that format f can carry as a *valid, supported*
// document.
func GenVal(c *simkit.Choices, f Format, o GenOpts) Val {
	g := &genState{c: c, f: f, o: o, budget: o.Budget}
	if o.TopContainer {
		return g.container(0)
	}
	return g.val(0)
}

func (g *genState) val(depth int) Val {
	c := g.c
	g.budget--
	wantContainer := depth < g.o.MaxDepth && g.budget > 0 && c.N(10) < 4
	if depth == 0 && c.N(10) < 6 && g.o.MaxDepth > 0 {
		wantContainer = true
	}
	if wantContainer {
		return g.container(depth)
	}
	return g.scalar()
}

func (g *genState) container(depth int) Val {
	c := g.c
	if depth <= 1 {
		if n := g.bigLen(); n >= 0 {
			// a wide container: the element count sits at a width boundary
			small := []Val{{K: VNull}, Bool(true), Int(1), Int(-1), Int(300)}[c.N(5)]
			if c.Bool() {
				v := Val{K: VArr, A: make([]Val, n)}
				for i := range v.A {
					v.A[i] = small
				}
				return v
			}
			if n > 1000 {
				n = 1000 // objects: keys make them long enough
			}
			v := Val{K: VObj, A: make([]Val, n), Keys: make([]string, n)}
			for i := range v.A {
				v.A[i] = small
				v.Keys[i] = "k" + string(rune('a'+i%26))
			}
			return v
		}
	}
	n := c.Small(g.o.MaxElems)
	// deep chains: occasionally build a narrow deep nest
	if depth == 0 && c.N(16) == 0 {
		// beyond the parsers' pre-allocated state stacks (32 / 64 entries);
		// every level gets a sibling after the nested child
		d := []int{31, 32, 33, 34, 40, 63, 64, 65, 70}[c.N(9)]
		mode := c.N(3)
		v := g.scalar()
		for i := 0; i < d; i++ {
			arr := mode == 0 || mode == 2 && c.Bool()
			if arr {
				v = Val{K: VArr, A: []Val{v}}
				if c.N(3) == 0 {
					v.A = append(v.A, Int(int64(i)))
				}
			} else {
				v = Val{K: VObj, A: []Val{v}, Keys: []string{GenKey(c, 8)}}
				if c.N(3) == 0 {
					v.A = append(v.A, Bool(true))
					v.Keys = append(v.Keys, "s")
				}
			}
		}
		return v
	}
	if c.Bool() {
		v := Val{K: VArr}
		for i := 0; i < n && g.budget > 0; i++ {
			v.A = append(v.A, g.val(depth+1))
		}
		return v
	}
	v := Val{K: VObj}
	for i := 0; i < n && g.budget > 0; i++ {
		k := GenKey(c, g.o.MaxStr)
		if i > 0 && c.N(16) == 0 {
			k = v.Keys[c.N(len(v.Keys))] // duplicate key
		}
		v.Keys = append(v.Keys, k)
		v.A = append(v.A, g.val(depth+1))
	}
	return v
}

func (g *genState) scalar() Val {
	c := g.c
	if n := g.bigLen(); n >= 0 {
		if g.f == CBOR && c.N(3) == 0 {
			return Val{K: VBytes, S: repeatText(c, n)}
		}
		return Text(repeatText(c, n))
	}
	switch g.f {
	case JSON:
		switch c.N(10) {
		case 0:
			return Val{K: VNull}
		case 1:
			return Bool(c.Bool())
		case 2, 3, 4:
			return Text(GenText(c, g.o.MaxStr))
		case 5, 6:
			return GenInt(c)
		case 7:
			if c.N(3) == 0 {
				return GenUintBig(c)
			}
			return GenInt(c)
		default:
			return Val{K: VNum, S: genJSONFloatLiteral(c)}
		}
	case CBOR:
		switch c.N(12) {
		case 0:
			return Val{K: VNull}
		case 1:
			if c.N(3) == 0 {
				return Val{K: VUndef}
			}
			return Bool(c.Bool())
		case 2, 3, 4:
			return Text(GenText(c, g.o.MaxStr))
		case 5, 6, 7:
			return GenInt(c)
		case 8:
			return GenUintBig(c)
		case 9:
			return GenF32(c, true)
		case 10:
			return GenF64(c, true)
		default:
			return Val{K: VBytes, S: GenBytes(c, g.o.MaxStr)}
		}
	default: // UBJSON
		switch c.N(12) {
		case 0:
			return Val{K: VNull}
		case 1:
			return Bool(c.Bool())
		case 2, 3, 4:
			return Text(GenText(c, g.o.MaxStr))
		case 5, 6, 7:
			return GenInt(c)
		case 8:
			return Val{K: VChar, U: uint64(c.N(256))}
		case 9:
			return GenF32(c, true)
		case 10:
			return GenF64(c, true)
		default:
			return Val{K: VHighPrec, S: genHighPrec(c)}
		}
	}
}

func genHighPrec(c *simkit.Choices) string {
	if c.Bool() {
		// any spelling of the JSON number grammar: signs, fractions, exponents
		// with explicit + or -, upper and lower case E, very long digit runs
		switch c.N(3) {
		case 0:
			return genScaledDecimal(c)
		case 1:
			return genJSONFloatLiteral(c)
		default:
			d := strings.Repeat("9", 20+c.N(60))
			return []string{d, "-" + d, d + "." + d, "1." + d + "e+300", "-0." + d + "E-" + strconv.Itoa(1+c.N(999)), d + "e+" + strconv.Itoa(c.N(5000))}[c.N(6)]
		}
	}
	switch c.N(4) {
	case 0:
		return "18446744073709551615"
	case 1:
		return "3.14159265358979323846264338327950288"
	case 2:
		return "-123456789012345678901234567890"
	default:
		return "1e400"
	}
}

func genJSONFloatLiteral(c *simkit.Choices) string {
	fixed := []string{"0.5", "-0.5", "1.0", "0.0", "-0.0", "1e2", "1E2", "1e+2", "1e-2", "3.14", "-3.14", "7e9",
		"1.7976931348623157e308", "5e-324", "0.1", "123456789.125", "1.5E+10", "2.5e-10", "0e0", "10.25",
		"9007199254740993.0", "0.30000000000000004", "1e21", "4.35", "100.0e-2", "-1E-0"}
	if c.N(24) == 0 {
		// a literal longer than the parser's 64-byte inline buffer
		var sb strings.Builder
		if c.Bool() {
			sb.WriteByte('-')
		}
		sb.WriteByte(byte('1' + c.N(9)))
		for i, n := 0, c.N(40); i < n; i++ {
			sb.WriteByte(byte('0' + c.N(10)))
		}
		sb.WriteByte('.')
		for i, n := 0, 30+c.N(120); i < n; i++ {
			sb.WriteByte(byte('0' + c.N(10)))
		}
		if c.Bool() {
			sb.WriteString("e-3")
		}
		return sb.String()
	}
	if c.N(3) == 0 {
		return genScaledDecimal(c)
	}
	if c.N(3) > 0 {
		return fixed[c.N(len(fixed))]
	}
	// random literal: int part, optional fraction, optional exponent, at least one of them
	var sb strings.Builder
	if c.Bool() {
		sb.WriteByte('-')
	}
	if c.N(4) == 0 {
		sb.WriteByte('0')
	} else {
		sb.WriteByte(byte('1' + c.N(9)))
		for i, n := 0, c.N(6); i < n; i++ {
			sb.WriteByte(byte('0' + c.N(10)))
		}
	}
	frac := c.Bool()
	if frac {
		sb.WriteByte('.')
		for i, n := 0, 1+c.N(8); i < n; i++ {
			sb.WriteByte(byte('0' + c.N(10)))
		}
	}
	if !frac || c.Bool() {
		sb.WriteByte("eE"[c.N(2)])
		switch c.N(3) {
		case 1:
			sb.WriteByte('+')
		case 2:
			sb.WriteByte('-')
		}
		sb.WriteByte(byte('0' + c.N(10)))
		if c.Bool() {
			sb.WriteByte(byte('0' + c.N(10)))
		}
	}
	return sb.String()
}

// genScaledDecimal draws D x 10^k (D: 1-19 significant digits, k in [-45,45]
// or near the ends of the float64 range) and writes it in one of the many
// spellings JSON allows: positional with leading or trailing zeros, with the
// point anywhere inside D, or with an exponent that moves the point. Fast paths
// of decimal-to-binary conversion depend on the digit count and on the power of
// ten, not on the value.
func genScaledDecimal(c *simkit.Choices) string {
	nd := 1 + c.N(19)
	if c.Bool() {
		nd = 1 + c.N(4)
	}
	d := make([]byte, nd)
	for i := range d {
		d[i] = byte('0' + c.N(10))
	}
	d[0] = byte('1' + c.N(9))
	if nd > 1 && c.N(4) == 0 {
		d[nd-1] = '0' // trailing zero inside the digits
	}
	k := c.N(91) - 45
	switch c.N(8) {
	case 0:
		k = -330 + c.N(40)
	case 1:
		k = 280 + c.N(30)
	case 2:
		k = []int{-23, -22, 22, 23, -15, 15, 16, -16, -19, 19, -27, 27, -28}[c.N(13)]
	}
	if k+nd-1 > 307 {
		k = 307 - (nd - 1) - c.N(3) // stays inside the float64 range: no overflow question
	}
	D := string(d)
	var sb strings.Builder
	if c.N(4) == 0 {
		sb.WriteByte('-')
	}
	ei := c.N(2)
	e := "eE"[ei : ei+1]
	form := c.N(5)
	if (k > 60 || k < -60) && form < 2 {
		form = 2 + c.N(3)
	}
	switch form {
	case 0: // positional
		switch {
		case k >= 0:
			// (always with a fraction: a bare integer literal beyond 64 bits is another question)
			sb.WriteString(D + strings.Repeat("0", k) + "." + strings.Repeat("0", 1+c.N(3)))
		case -k < nd:
			sb.WriteString(D[:nd+k] + "." + D[nd+k:])
		default:
			sb.WriteString("0." + strings.Repeat("0", -k-nd) + D)
		}
	case 1: // positional with needless trailing zeros in the fraction
		switch {
		case k >= 0:
			sb.WriteString(D + strings.Repeat("0", k) + ".0")
		case -k < nd:
			sb.WriteString(D[:nd+k] + "." + D[nd+k:] + strings.Repeat("0", c.N(4)))
		default:
			sb.WriteString("0." + strings.Repeat("0", -k-nd) + D + strings.Repeat("0", c.N(4)))
		}
	case 2: // scientific, one digit before the point
		sb.WriteString(D[:1])
		if nd > 1 {
			sb.WriteString("." + D[1:])
		}
		sb.WriteString(e + strconv.Itoa(k+nd-1))
	case 3: // all digits, then the exponent
		sb.WriteString(D + e)
		if k >= 0 && c.Bool() {
			sb.WriteByte('+')
		}
		sb.WriteString(strconv.Itoa(k))
	default: // 0.000D with a compensating exponent
		z := c.N(6)
		sb.WriteString("0." + strings.Repeat("0", z) + D + e + strconv.Itoa(k+nd+z))
	}
	return sb.String()
}
