package main

import (
	"encoding/json"
	"fmt"
	"os"
	"path/filepath"
	"sort"
	"time"
)

// selftestDeterminism re-executes the same run indices of every engine in
// many processes under different GOMAXPROCS and worker counts and compares
// per-run digests (choice trace, logical clock, outcome class).
func selftestDeterminism(args []string) int {
	props := args
	if len(props) == 0 {
		for id := range registry {
			props = append(props, id)
		}
		sort.Strings(props)
	}
	tmpDir := filepath.Join(verifDir, ".build", fmt.Sprintf("selftest-%d", os.Getpid()))
	os.MkdirAll(tmpDir, 0o755)
	defer os.RemoveAll(tmpDir)
	bad := 0
	for _, prop := range props {
		cfg := registry[prop]
		if cfg == nil {
			fmt.Fprintf(os.Stderr, "unknown property %s\n", prop)
			return 2
		}
		const runs = 96
		ref := map[string]uint64{}
		procs := 0
		for _, gmp := range []string{"1", "4", "16"} {
			for _, nw := range []int{1, 4, 16} {
				for w := 0; w < nw; w++ {
					if nw == 16 && w%4 != 0 {
						continue // sample of the 16-worker partition
					}
					os.Setenv("VERIF_GOMAXPROCS", gmp)
					pf := filepath.Join(tmpDir, "st.progress")
					r := runChild(300*time.Second, selfPath(cfg.Race), "worker", "-prop", prop, "-seed", "1", "-w", fmt.Sprint(w), "-nw", fmt.Sprint(nw),
						"-runs", fmt.Sprint(runs), "-progress", pf, "-selftest", "-out", tmpDir)
					procs++
					var res workerResult
					if r.exit != 0 || json.Unmarshal(r.stdout, &res) != nil {
						fmt.Fprintf(os.Stderr, "selftest %s: worker failed exit=%d\n%s\n", prop, r.exit, tailStr(r.stderr, 2000))
						return 2
					}
					if res.Mismatches > 0 {
						fmt.Printf("NONDETERMINISM property=%s in-process re-execution mismatch (run %d)\n", prop, res.MismatchRun)
						bad++
					}
					for k, d := range res.Digests {
						if old, ok := ref[k]; ok && old != d {
							fmt.Printf("NONDETERMINISM property=%s run=%s digest %x != %x (GOMAXPROCS=%s nw=%d)\n", prop, k, d, old, gmp, nw)
							bad++
						}
						ref[k] = d
					}
				}
			}
		}
		fmt.Printf("selftest-determinism property=%s processes=%d runs=%d ok=%v\n", prop, procs, len(ref), bad == 0)
	}
	if bad > 0 {
		return 2
	}
	return 0
}
