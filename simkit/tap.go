package simkit

import (
	"fmt"
	"math"
	"sort"
	"strconv"
	"strings"

	structform "github.com/elastic/go-structform"
)

// Kind of a recorded visitor event.
type Kind uint8

const (
	KObjStart Kind = iota
	KObjEnd
	KKey
	KArrStart
	KArrEnd
	KNil
	KBool
	KStr
	KInt8
	KInt16
	KInt32
	KInt64
	KInt
	KByte
	KUint8
	KUint16
	KUint32
	KUint64
	KUint
	KFloat32
	KFloat64
	kindCount
)

var kindNames = [...]string{"ObjStart", "ObjEnd", "Key", "ArrStart", "ArrEnd", "Nil", "Bool", "Str",
	"Int8", "Int16", "Int32", "Int64", "Int", "Byte", "Uint8", "Uint16", "Uint32", "Uint64", "Uint", "Float32", "Float64"}

func (k Kind) String() string {
	if int(k) < len(kindNames) {
		return kindNames[k]
	}
	return "Kind(" + strconv.Itoa(int(k)) + ")"
}

// Ev is one normalised visitor event. Strings and keys are copied when the
// event is recorded; by-reference and by-value delivery are the same event.
type Ev struct {
	K   Kind
	I   int64  // signed payload: ints, announced length, bool (0/1)
	U   uint64 // unsigned payload: uints, float bits
	T   uint8  // announced base type (starts)
	S   string // string / key payload
	Ref bool   // delivered by reference (informational, not compared)
}

func (e Ev) String() string {
	switch e.K {
	case KObjStart, KArrStart:
		return fmt.Sprintf("%v(len=%d,type=%d)", e.K, e.I, e.T)
	case KObjEnd, KArrEnd, KNil:
		return e.K.String()
	case KKey, KStr:
		return fmt.Sprintf("%v(%q)", e.K, e.S)
	case KBool:
		return fmt.Sprintf("Bool(%v)", e.I != 0)
	case KInt8, KInt16, KInt32, KInt64, KInt:
		return fmt.Sprintf("%v(%d)", e.K, e.I)
	case KFloat32:
		return fmt.Sprintf("Float32(%v/%#x)", math.Float32frombits(uint32(e.U)), e.U)
	case KFloat64:
		return fmt.Sprintf("Float64(%v/%#x)", math.Float64frombits(e.U), e.U)
	default:
		return fmt.Sprintf("%v(%d)", e.K, e.U)
	}
}

// Same compares two events ignoring the delivery mode.
func (e Ev) Same(o Ev) bool {
	return e.K == o.K && e.I == o.I && e.U == o.U && e.T == o.T && e.S == o.S
}

// EventsString renders an event list compactly (for replay files).
func EventsString(evs []Ev, max int) string {
	var sb strings.Builder
	for i, e := range evs {
		if i > 0 {
			sb.WriteByte(' ')
		}
		if max > 0 && i >= max {
			fmt.Fprintf(&sb, "…(+%d)", len(evs)-i)
			break
		}
		sb.WriteString(e.String())
	}
	return sb.String()
}

// DiffEvents returns the index of the first difference or -1.
func DiffEvents(a, b []Ev) int {
	n := len(a)
	if len(b) < n {
		n = len(b)
	}
	for i := 0; i < n; i++ {
		if !a[i].Same(b[i]) {
			return i
		}
	}
	if len(a) != len(b) {
		return n
	}
	return -1
}

// Tap is a structform.Visitor placed at the visitor seam. It records events,
// optionally forwards them, and calls Hook before each event; a non-nil error
// from Hook is returned to the producer instead of processing the event
// (visitor fault injection). It implements StringRefVisitor; wrap it in
// NoRef to hide that.
type Tap struct {
	Events   []Ev
	Count    int // events seen (also those not recorded)
	Next     structform.Visitor
	nextRef  structform.StringRefVisitor
	Hook     func(idx int, ev *Ev) error
	NoRecord bool
	MaxKeep  int // stop recording (not counting) beyond this many events; 0 = unlimited
	Clock    *uint64
	// Hash: fold every event into Sum (FNV-1a over kind, numbers and string
	// bytes) - event streams of 10^5..10^6 events are compared by digest
	// instead of being kept.
	Hash bool
	Sum  uint64
}

func NewTap(next structform.Visitor) *Tap {
	t := &Tap{}
	t.SetNext(next)
	return t
}

func (t *Tap) SetNext(next structform.Visitor) {
	t.Next = next
	t.nextRef = nil
	if next != nil {
		if r, ok := next.(structform.StringRefVisitor); ok {
			t.nextRef = r
		}
	}
}

func (t *Tap) Reset() { t.Events = t.Events[:0]; t.Count = 0 }

func (t *Tap) on(ev Ev) error {
	idx := t.Count
	t.Count++
	if t.Clock != nil {
		*t.Clock++
	}
	if t.Hook != nil {
		// (a copy, so that ev itself does not escape to the heap when no hook
		// is set: the tap must not allocate per event - it sits inside the
		// allocation measurements of C03 and C14)
		e2 := ev
		if err := t.Hook(idx, &e2); err != nil {
			return err
		}
		ev = e2
	}
	if t.Hash {
		h := t.Sum ^ 14695981039346656037
		mix := func(v uint64) {
			for i := 0; i < 8; i++ {
				h = (h ^ (v & 0xff)) * 1099511628211
				v >>= 8
			}
		}
		mix(uint64(ev.K))
		mix(uint64(ev.I))
		mix(ev.U)
		mix(uint64(ev.T))
		mix(uint64(len(ev.S)))
		for i := 0; i < len(ev.S); i++ {
			h = (h ^ uint64(ev.S[i])) * 1099511628211
		}
		t.Sum = h
	}
	if !t.NoRecord && (t.MaxKeep == 0 || len(t.Events) < t.MaxKeep) {
		t.Events = append(t.Events, ev)
	}
	return nil
}

func (t *Tap) OnObjectStart(l int, bt structform.BaseType) error {
	if err := t.on(Ev{K: KObjStart, I: int64(l), T: uint8(bt)}); err != nil {
		return err
	}
	if t.Next != nil {
		return t.Next.OnObjectStart(l, bt)
	}
	return nil
}
func (t *Tap) OnObjectFinished() error {
	if err := t.on(Ev{K: KObjEnd}); err != nil {
		return err
	}
	if t.Next != nil {
		return t.Next.OnObjectFinished()
	}
	return nil
}
func (t *Tap) OnKey(s string) error {
	if err := t.on(Ev{K: KKey, S: strings.Clone(s)}); err != nil {
		return err
	}
	if t.Next != nil {
		return t.Next.OnKey(s)
	}
	return nil
}
func (t *Tap) OnKeyRef(s []byte) error {
	if err := t.on(Ev{K: KKey, S: string(s), Ref: true}); err != nil {
		return err
	}
	if t.nextRef != nil {
		return t.nextRef.OnKeyRef(s)
	}
	if t.Next != nil {
		return t.Next.OnKey(string(s))
	}
	return nil
}
func (t *Tap) OnArrayStart(l int, bt structform.BaseType) error {
	if err := t.on(Ev{K: KArrStart, I: int64(l), T: uint8(bt)}); err != nil {
		return err
	}
	if t.Next != nil {
		return t.Next.OnArrayStart(l, bt)
	}
	return nil
}
func (t *Tap) OnArrayFinished() error {
	if err := t.on(Ev{K: KArrEnd}); err != nil {
		return err
	}
	if t.Next != nil {
		return t.Next.OnArrayFinished()
	}
	return nil
}
func (t *Tap) OnNil() error {
	if err := t.on(Ev{K: KNil}); err != nil {
		return err
	}
	if t.Next != nil {
		return t.Next.OnNil()
	}
	return nil
}
func (t *Tap) OnBool(b bool) error {
	var i int64
	if b {
		i = 1
	}
	if err := t.on(Ev{K: KBool, I: i}); err != nil {
		return err
	}
	if t.Next != nil {
		return t.Next.OnBool(b)
	}
	return nil
}
func (t *Tap) OnString(s string) error {
	if err := t.on(Ev{K: KStr, S: strings.Clone(s)}); err != nil {
		return err
	}
	if t.Next != nil {
		return t.Next.OnString(s)
	}
	return nil
}
func (t *Tap) OnStringRef(s []byte) error {
	if err := t.on(Ev{K: KStr, S: string(s), Ref: true}); err != nil {
		return err
	}
	if t.nextRef != nil {
		return t.nextRef.OnStringRef(s)
	}
	if t.Next != nil {
		return t.Next.OnString(string(s))
	}
	return nil
}
func (t *Tap) OnInt8(v int8) error {
	if err := t.on(Ev{K: KInt8, I: int64(v)}); err != nil {
		return err
	}
	if t.Next != nil {
		return t.Next.OnInt8(v)
	}
	return nil
}
func (t *Tap) OnInt16(v int16) error {
	if err := t.on(Ev{K: KInt16, I: int64(v)}); err != nil {
		return err
	}
	if t.Next != nil {
		return t.Next.OnInt16(v)
	}
	return nil
}
func (t *Tap) OnInt32(v int32) error {
	if err := t.on(Ev{K: KInt32, I: int64(v)}); err != nil {
		return err
	}
	if t.Next != nil {
		return t.Next.OnInt32(v)
	}
	return nil
}
func (t *Tap) OnInt64(v int64) error {
	if err := t.on(Ev{K: KInt64, I: v}); err != nil {
		return err
	}
	if t.Next != nil {
		return t.Next.OnInt64(v)
	}
	return nil
}
func (t *Tap) OnInt(v int) error {
	if err := t.on(Ev{K: KInt, I: int64(v)}); err != nil {
		return err
	}
	if t.Next != nil {
		return t.Next.OnInt(v)
	}
	return nil
}
func (t *Tap) OnByte(v byte) error {
	if err := t.on(Ev{K: KByte, U: uint64(v)}); err != nil {
		return err
	}
	if t.Next != nil {
		return t.Next.OnByte(v)
	}
	return nil
}
func (t *Tap) OnUint8(v uint8) error {
	if err := t.on(Ev{K: KUint8, U: uint64(v)}); err != nil {
		return err
	}
	if t.Next != nil {
		return t.Next.OnUint8(v)
	}
	return nil
}
func (t *Tap) OnUint16(v uint16) error {
	if err := t.on(Ev{K: KUint16, U: uint64(v)}); err != nil {
		return err
	}
	if t.Next != nil {
		return t.Next.OnUint16(v)
	}
	return nil
}
func (t *Tap) OnUint32(v uint32) error {
	if err := t.on(Ev{K: KUint32, U: uint64(v)}); err != nil {
		return err
	}
	if t.Next != nil {
		return t.Next.OnUint32(v)
	}
	return nil
}
func (t *Tap) OnUint64(v uint64) error {
	if err := t.on(Ev{K: KUint64, U: v}); err != nil {
		return err
	}
	if t.Next != nil {
		return t.Next.OnUint64(v)
	}
	return nil
}
func (t *Tap) OnUint(v uint) error {
	if err := t.on(Ev{K: KUint, U: uint64(v)}); err != nil {
		return err
	}
	if t.Next != nil {
		return t.Next.OnUint(v)
	}
	return nil
}
func (t *Tap) OnFloat32(v float32) error {
	if err := t.on(Ev{K: KFloat32, U: uint64(math.Float32bits(v))}); err != nil {
		return err
	}
	if t.Next != nil {
		return t.Next.OnFloat32(v)
	}
	return nil
}
func (t *Tap) OnFloat64(v float64) error {
	if err := t.on(Ev{K: KFloat64, U: math.Float64bits(v)}); err != nil {
		return err
	}
	if t.Next != nil {
		return t.Next.OnFloat64(v)
	}
	return nil
}

var _ structform.Visitor = (*Tap)(nil)
var _ structform.StringRefVisitor = (*Tap)(nil)

// NoRef hides the StringRefVisitor side of a visitor, so that producers take
// their by-value fallback path.
type NoRef struct{ structform.Visitor }

// Emit replays a recorded event into a visitor (by value or by reference).
func Emit(v structform.Visitor, e Ev, byRef bool) error {
	switch e.K {
	case KObjStart:
		return v.OnObjectStart(int(e.I), structform.BaseType(e.T))
	case KObjEnd:
		return v.OnObjectFinished()
	case KKey:
		if byRef {
			if r, ok := v.(structform.StringRefVisitor); ok {
				b := []byte(e.S)
				err := r.OnKeyRef(b)
				checkUnmodified(b, e.S, "OnKeyRef")
				return err
			}
		}
		return v.OnKey(e.S)
	case KArrStart:
		return v.OnArrayStart(int(e.I), structform.BaseType(e.T))
	case KArrEnd:
		return v.OnArrayFinished()
	case KNil:
		return v.OnNil()
	case KBool:
		return v.OnBool(e.I != 0)
	case KStr:
		if byRef {
			if r, ok := v.(structform.StringRefVisitor); ok {
				b := []byte(e.S)
				err := r.OnStringRef(b)
				checkUnmodified(b, e.S, "OnStringRef")
				return err
			}
		}
		return v.OnString(e.S)
	case KInt8:
		return v.OnInt8(int8(e.I))
	case KInt16:
		return v.OnInt16(int16(e.I))
	case KInt32:
		return v.OnInt32(int32(e.I))
	case KInt64:
		return v.OnInt64(e.I)
	case KInt:
		return v.OnInt(int(e.I))
	case KByte:
		return v.OnByte(byte(e.U))
	case KUint8:
		return v.OnUint8(uint8(e.U))
	case KUint16:
		return v.OnUint16(uint16(e.U))
	case KUint32:
		return v.OnUint32(uint32(e.U))
	case KUint64:
		return v.OnUint64(e.U)
	case KUint:
		return v.OnUint(uint(e.U))
	case KFloat32:
		return v.OnFloat32(math.Float32frombits(uint32(e.U)))
	case KFloat64:
		return v.OnFloat64(math.Float64frombits(e.U))
	}
	return fmt.Errorf("simkit: unknown event kind %d", e.K)
}

// Arena is a caller-owned buffer that is reused for document after document:
// every string passed by reference is a view into it, laid out one after the
// other, and Rewind starts overwriting from the beginning - what a parser's
// read buffer, or a caller reading records into one []byte, looks like to the
// visitor.
type Arena struct {
	buf []byte
	off int
}

func NewArena(n int) *Arena { return &Arena{buf: make([]byte, n)} }

// Ref copies s into the arena and returns the view (capacity clamped).
func (a *Arena) Ref(s string) []byte {
	if a.off+len(s) > len(a.buf) {
		return []byte(s)
	}
	b := a.buf[a.off : a.off+len(s) : a.off+len(s)]
	copy(b, s)
	a.off += len(s)
	return b
}

func (a *Arena) Rewind() { a.off = 0 }

// EmitArena is Emit with keys and strings passed by reference into a.
func EmitArena(v structform.Visitor, e Ev, a *Arena) error {
	if r, ok := v.(structform.StringRefVisitor); ok {
		switch e.K {
		case KKey:
			return r.OnKeyRef(a.Ref(e.S))
		case KStr:
			return r.OnStringRef(a.Ref(e.S))
		}
	}
	return Emit(v, e, false)
}

// InputModified is set (and stays set until TakeInputModified) when a consumer
// wrote into bytes that were only lent to it: the argument of OnKeyRef /
// OnStringRef, or the slice passed to Write ("Write must not modify the slice
// data, even temporarily").
var inputModified string

func checkUnmodified(b []byte, want string, where string) {
	if inputModified == "" && string(b) != want {
		inputModified = fmt.Sprintf("%s: the callee changed the bytes it was lent: %q became %q", where, trunc80(want), trunc80(string(b)))
	}
}

func trunc80(s string) string {
	if len(s) > 80 {
		return s[:80] + "..."
	}
	return s
}

// TakeInputModified returns and clears the record of a modified input.
func TakeInputModified() string {
	s := inputModified
	inputModified = ""
	return s
}

// CanonEvents returns the stream with the members of every object sorted by
// key (then by their value's rendering), recursively. Two folds of the same Go
// map differ in member order only (Go's map iteration order has no seam);
// their canonical forms are equal.
func CanonEvents(evs []Ev) []Ev {
	out := make([]Ev, 0, len(evs))
	pos := 0
	var value func() []Ev
	value = func() []Ev {
		if pos >= len(evs) {
			return nil
		}
		e := evs[pos]
		pos++
		switch e.K {
		case KArrStart:
			res := []Ev{e}
			for pos < len(evs) && evs[pos].K != KArrEnd {
				res = append(res, value()...)
			}
			if pos < len(evs) {
				res = append(res, evs[pos])
				pos++
			}
			return res
		case KObjStart:
			type member struct {
				key string
				evs []Ev
				str string
			}
			var ms []member
			for pos < len(evs) && evs[pos].K != KObjEnd {
				m := member{}
				if evs[pos].K == KKey {
					m.key = evs[pos].S
					m.evs = append(m.evs, evs[pos])
					pos++
				}
				m.evs = append(m.evs, value()...)
				m.str = EventsString(m.evs, 0)
				ms = append(ms, m)
			}
			sort.SliceStable(ms, func(i, j int) bool {
				if ms[i].key != ms[j].key {
					return ms[i].key < ms[j].key
				}
				return ms[i].str < ms[j].str
			})
			res := []Ev{e}
			for _, m := range ms {
				res = append(res, m.evs...)
			}
			if pos < len(evs) {
				res = append(res, evs[pos])
				pos++
			}
			return res
		}
		return []Ev{e}
	}
	for pos < len(evs) {
		out = append(out, value()...)
	}
	return out
}
