package simkit

import (
	"fmt"
	"hash/fnv"
	"runtime"
	"sort"
	"strings"
)

// Violation is what an engine returns when the property does not hold on a run.
// Two violations belong to the same class iff Kind and Site are equal.
type Violation struct {
	Kind     string      `json:"kind"`
	Site     string      `json:"site"`
	Detail   string      `json:"detail"`
	Scenario interface{} `json:"scenario,omitempty"`
}

func (v *Violation) Class() string { return v.Kind + "@" + v.Site }

// Stats are the per-worker counters behind the evidence file.
type Stats struct {
	Evaluations int64            `json:"evaluations"`
	Runs        int64            `json:"runs"`
	Steps       uint64           `json:"steps"`
	Faults      map[string]int64 `json:"faults"`
	Probes      map[string]int64 `json:"probes"`
	Samples     []interface{}    `json:"samples"`
	distinct    map[uint64]struct{}
	states      map[uint64]struct{}
	MaxSamples  int `json:"-"`
	// Frozen is set while shrinking/replaying: counters are not touched.
	Frozen bool `json:"-"`
}

func NewStats() *Stats {
	return &Stats{Faults: map[string]int64{}, Probes: map[string]int64{},
		distinct: map[uint64]struct{}{}, states: map[uint64]struct{}{}, MaxSamples: 3}
}

func (s *Stats) Fault(kind string) {
	if s != nil && !s.Frozen {
		s.Faults[kind]++
	}
}
func (s *Stats) Probe(name string) {
	if s != nil && !s.Frozen {
		s.Probes[name]++
	}
}
func (s *Stats) ProbeN(name string, n int) {
	if s != nil && !s.Frozen && n != 0 {
		s.Probes[name] += int64(n)
	}
}
func (s *Stats) Eval(n int) {
	if s != nil && !s.Frozen {
		s.Evaluations += int64(n)
	}
}

// Distinct records the digest of a non-trivial scenario execution.
func (s *Stats) Distinct(d uint64) {
	if s != nil && !s.Frozen && len(s.distinct) < MaxDistinctPerWorker {
		s.distinct[d] = struct{}{}
	}
}

// MaxDistinctPerWorker caps the exact distinct-case set of one worker process
// (memory); beyond it the count is conservative (an undercount).
const MaxDistinctPerWorker = 100000

// State records a distinct reached state (resume state, interleaving…).
func (s *Stats) State(d uint64) {
	if s != nil && !s.Frozen {
		s.states[d] = struct{}{}
	}
}

func (s *Stats) Sample(v interface{}) {
	if s != nil && !s.Frozen && len(s.Samples) < s.MaxSamples {
		s.Samples = append(s.Samples, v)
	}
}

func (s *Stats) DistinctKeys() []uint64 { return keys(s.distinct) }
func (s *Stats) StateKeys() []uint64    { return keys(s.states) }

func keys(m map[uint64]struct{}) []uint64 {
	out := make([]uint64, 0, len(m))
	for k := range m {
		out = append(out, k)
	}
	sort.Slice(out, func(i, j int) bool { return out[i] < out[j] })
	return out
}

// Digest is a small helper to hash scenario features.
type Digest struct{ h uint64 }

func NewDigest() *Digest { return &Digest{h: 14695981039346656037} }
func (d *Digest) Byte(b byte) *Digest {
	d.h ^= uint64(b)
	d.h *= 1099511628211
	return d
}
func (d *Digest) Bytes(b []byte) *Digest {
	for _, c := range b {
		d.Byte(c)
	}
	return d.Byte(0xff)
}
func (d *Digest) Str(s string) *Digest {
	for i := 0; i < len(s); i++ {
		d.Byte(s[i])
	}
	return d.Byte(0xfe)
}
func (d *Digest) Int(v int) *Digest {
	u := uint64(v)
	for i := 0; i < 8; i++ {
		d.Byte(byte(u >> (8 * i)))
	}
	return d
}
func (d *Digest) Ints(v []int) *Digest {
	for _, x := range v {
		d.Int(x)
	}
	return d.Byte(0xfd)
}
func (d *Digest) Sum() uint64 { return d.h }

func HashString(s string) uint64 {
	h := fnv.New64a()
	h.Write([]byte(s))
	return h.Sum64()
}

// PanicInfo describes a recovered panic of library code.
type PanicInfo struct {
	Value string
	Site  string // top-most frame inside the library (function name), normalised
	Stack string
}

const libPrefix = "github.com/elastic/go-structform"

// Guard runs f and converts a panic into a PanicInfo. Runtime fatal errors
// (out of memory, concurrent map access, checkptr) are not recoverable and
// are attributed by the driver through the progress word.
func Guard(f func()) (pi *PanicInfo) {
	defer func() {
		if r := recover(); r != nil {
			pi = &PanicInfo{Value: fmt.Sprint(r)}
			pcs := make([]uintptr, 64)
			n := runtime.Callers(2, pcs)
			frames := runtime.CallersFrames(pcs[:n])
			var sb strings.Builder
			for {
				fr, more := frames.Next()
				if pi.Site == "" && strings.HasPrefix(fr.Function, libPrefix) {
					pi.Site = strings.TrimPrefix(fr.Function, libPrefix)
				}
				if sb.Len() < 1500 {
					fmt.Fprintf(&sb, "%s:%d\n", fr.Function, fr.Line)
				}
				if !more {
					break
				}
			}
			if pi.Site == "" {
				pi.Site = "outside-library"
			}
			pi.Stack = sb.String()
		}
	}()
	f()
	return nil
}

// NormalisePanic strips run-specific numbers out of a panic message so that
// it can be part of a violation class.
func NormalisePanic(msg string) string {
	var sb strings.Builder
	prevDigit := false
	for _, r := range msg {
		if r >= '0' && r <= '9' {
			if !prevDigit {
				sb.WriteByte('N')
			}
			prevDigit = true
			continue
		}
		prevDigit = false
		sb.WriteRune(r)
	}
	s := sb.String()
	if len(s) > 80 {
		s = s[:80]
	}
	return s
}
