package simkit

// Shrink minimises a failing choice trace. test re-executes the run in replay
// mode and returns whether the same violation class persists, together with
// the effective (canonical) trace of that execution. Smaller values and
// shorter traces are simpler by construction of every generator.
func Shrink(trace []uint64, budget int, test func([]uint64) (bool, []uint64)) ([]uint64, int) {
	attempts := 0
	cur := trimZeros(trace)
	try := func(cand []uint64) bool {
		if attempts >= budget {
			return false
		}
		attempts++
		ok, eff := test(cand)
		if !ok {
			return false
		}
		eff = trimZeros(eff)
		if less(eff, cur) {
			cur = eff
		} else if less(cand, cur) {
			cur = trimZeros(cand)
		} else {
			return false
		}
		return true
	}

	for improved := true; improved && attempts < budget; {
		improved = false
		// pass 1: delete spans
		for size := len(cur) / 2; size >= 1; size /= 2 {
			for i := 0; i+size <= len(cur) && attempts < budget; {
				cand := append(append([]uint64{}, cur[:i]...), cur[i+size:]...)
				if try(cand) {
					improved = true
				} else {
					i += size
				}
			}
		}
		// pass 2: zero spans (large spans first: "the rest of the run is trivial")
		for size := len(cur) / 2; size >= 1; size /= 2 {
			for i := 0; i+size <= len(cur) && attempts < budget; i += size {
				allZero := true
				for _, v := range cur[i : i+size] {
					if v != 0 {
						allZero = false
					}
				}
				if allZero {
					continue
				}
				cand := append([]uint64{}, cur...)
				for j := i; j < i+size; j++ {
					cand[j] = 0
				}
				if try(cand) {
					improved = true
				}
			}
		}
		// pass 3: minimise individual values (binary search towards 0)
		for i := 0; i < len(cur) && attempts < budget; i++ {
			if cur[i] == 0 {
				continue
			}
			lo, hi := uint64(0), cur[i] // lo fails to reproduce (or untested), hi reproduces
			for lo < hi && attempts < budget {
				mid := lo + (hi-lo)/2
				if i >= len(cur) {
					break
				}
				cand := append([]uint64{}, cur...)
				cand[i] = mid
				if try(cand) {
					improved = true
					if i >= len(cur) {
						break
					}
					hi = cur[i]
					if hi > mid {
						hi = mid
					}
				} else {
					lo = mid + 1
				}
			}
		}
	}
	return cur, attempts
}

func trimZeros(t []uint64) []uint64 {
	n := len(t)
	for n > 0 && t[n-1] == 0 {
		n--
	}
	return append([]uint64{}, t[:n]...)
}

// less orders traces: shorter first, then lexicographically smaller.
func less(a, b []uint64) bool {
	if len(a) != len(b) {
		return len(a) < len(b)
	}
	for i := range a {
		if a[i] != b[i] {
			return a[i] < b[i]
		}
	}
	return false
}
