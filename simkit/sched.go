package simkit

import (
	"sync"
)

// Sched is the deterministic task scheduler: caller goroutines are real
// goroutines, but exactly one is runnable at a time, and which one runs next
// at every seam crossing is decided by the choice source. All hand-offs are
// wrapped in runtime.RaceDisable/RaceEnable and the scheduler functions are
// //go:norace, so the hand-off channels create no happens-before edge in the
// race detector: two tasks look exactly as unsynchronised as they would on
// two real threads, while the execution is serial and repeatable.
type Sched struct {
	c        *Choices
	tasks    []*schedTask
	back     chan int // task -> scheduler: "I yielded" (0) / "I finished" (1)
	cur      int
	policy   int
	sticky   int
	Switches int
	Yields   int
	// Schedule is the sequence of task indices actually run (the decisions
	// taken), part of the replay record.
	Schedule []uint8
	digest   uint64
	wg       sync.WaitGroup
	prio     []int
}

type schedTask struct {
	wake chan struct{}
	done bool
}

// Policies: 0 uniform, 1-3 sticky with p = .5/.9/.99, 4 round-robin,
// 5 random priorities with change points, 6 run-to-completion in random order.
const NumPolicies = 7

func NewSched(c *Choices, policy int) *Sched {
	return &Sched{c: c, back: make(chan int), policy: policy, digest: 14695981039346656037}
}

// Go registers a task. It starts running only when the scheduler picks it.
// The task body receives a yield function to call at every seam crossing.
func (s *Sched) Go(body func(yield func())) {
	t := &schedTask{wake: make(chan struct{})}
	idx := len(s.tasks)
	s.tasks = append(s.tasks, t)
	s.wg.Add(1)
	// goroutine creation is left visible to the race detector: everything
	// prepared before Go() happens-before the task body
	go func() {
		defer s.wg.Done()
		s.park(t)
		body(func() { s.yield(idx) })
		s.finish()
	}()
}

//go:norace
func (s *Sched) park(t *schedTask) {
	raceDisable()
	<-t.wake
	raceEnable()
}

//go:norace
func (s *Sched) yield(idx int) {
	raceDisable()
	s.back <- 0
	<-s.tasks[idx].wake
	raceEnable()
}

//go:norace
func (s *Sched) finish() {
	raceDisable()
	s.back <- 1
	raceEnable()
}

//go:norace
func (s *Sched) pick() int {
	var runnable []int
	for i, t := range s.tasks {
		if !t.done {
			runnable = append(runnable, i)
		}
	}
	if len(runnable) == 0 {
		return -1
	}
	curRunnable := s.cur >= 0 && s.cur < len(s.tasks) && !s.tasks[s.cur].done
	switch s.policy {
	case 1, 2, 3:
		if curRunnable {
			den := []int{2, 10, 100}[s.policy-1]
			if s.c.N(den) != 0 { // stay (0 would be "switch"; staying is NOT the simple value on purpose: see below)
				return s.cur
			}
		}
		return runnable[s.c.N(len(runnable))]
	case 4:
		for k := 1; k <= len(s.tasks); k++ {
			i := (s.cur + k) % len(s.tasks)
			if !s.tasks[i].done {
				return i
			}
		}
	case 5:
		if s.prio == nil || s.c.N(40) == 0 {
			s.prio = make([]int, len(s.tasks))
			for i := range s.prio {
				s.prio[i] = s.c.N(1000)
			}
		}
		best := runnable[0]
		for _, i := range runnable {
			if s.prio[i] > s.prio[best] {
				best = i
			}
		}
		return best
	case 6:
		if curRunnable {
			return s.cur
		}
		return runnable[s.c.N(len(runnable))]
	}
	return runnable[s.c.N(len(runnable))]
}

// Run executes all registered tasks to completion under the drawn schedule.
//
//go:norace
func (s *Sched) Run() {
	s.cur = -1
	for {
		next := s.pick()
		if next < 0 {
			break
		}
		if next != s.cur {
			s.Switches++
		}
		s.cur = next
		if len(s.Schedule) < 4096 {
			s.Schedule = append(s.Schedule, uint8(next))
		}
		s.digest = (s.digest ^ uint64(next)) * 1099511628211
		raceDisable()
		s.tasks[next].wake <- struct{}{}
		r := <-s.back
		raceEnable()
		if r == 1 {
			s.tasks[next].done = true
		} else {
			s.Yields++
		}
	}
	// the final join is visible to the race detector: results written by the
	// tasks happen-before the caller reading them
	s.wg.Wait()
}

// Digest identifies the interleaving that was executed.
func (s *Sched) Digest() uint64 { return s.digest }
