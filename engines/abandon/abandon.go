// Package abandon decides C14: for any well-formed stream and any target type
// unfolding succeeds or returns an error - it never panics, never writes
// outside the target, never allocates on the strength of an announced length
// - and after abandoning the document at ANY event (crash point) followed by
// Reset and SetTarget the unfolder behaves like a new one.
package abandon

import (
	"fmt"
	"reflect"
	"runtime"
	"runtime/metrics"
	"sort"
	"strconv"
	"strings"

	structform "github.com/elastic/go-structform"
	"github.com/elastic/go-structform/gotype"

	"verif/engines/reuse"
	"verif/model"
	"verif/simkit"
)

type Scenario struct {
	Target    string   `json:"target_type"`
	StreamOf  string   `json:"stream_source"`
	Stream    string   `json:"stream"`
	Events    int      `json:"stream_events"`
	K         int      `json:"abandon_after_events"`
	Announced []string `json:"inflated_announcements,omitempty"`
	ByRef     bool     `json:"strings_by_reference"`
	ProbeType string   `json:"probe_type"`
	Probe     string   `json:"probe_stream"`
}

type Engine struct{}

var allocSample = []metrics.Sample{{Name: "/gc/heap/allocs:bytes"}}

func cheapAlloc() uint64 {
	metrics.Read(allocSample)
	return allocSample[0].Value.Uint64()
}

func exactAlloc() uint64 {
	var ms runtime.MemStats
	runtime.ReadMemStats(&ms)
	return ms.TotalAlloc
}

var inflated = []int64{1 << 16, 1 << 20, 1<<31 - 1, 1 << 31, 1 << 40, 1 << 62, 1<<63 - 1}

func pickType(c *simkit.Choices, allowUnsupported bool) *model.TypeEntry {
	return model.PickType(c, true, false, allowUnsupported)
}

// genStream draws a well-formed basic event stream: the fold of a catalogue
// value, or a free-form generated stream.
// sameTypeSource is the value whose fold the current stream is, when the
// stream was produced from a value of the target's own type (else nil).
var sameTypeSource interface{}

func genStream(c *simkit.Choices, x *simkit.Ctx, like *model.TypeEntry) ([]simkit.Ev, string) {
	sameTypeSource = nil
	switch c.N(4) {
	case 0, 1:
		// same shape as the target (compatible unless lengths are inflated)
		if like != nil && like.Supported {
			v := like.Gen(c)
			if evs := reuse.RecordFold(v); evs != nil {
				sameTypeSource = v
				return evs, "fold(" + like.Name + ")"
			}
		}
		fallthrough
	case 2:
		te := model.PickType(c, false, false, false)
		if evs := reuse.RecordFold(te.Gen(c)); evs != nil {
			return evs, "fold(" + te.Name + ")"
		}
		fallthrough
	default:
		oo := model.OpsOpts{Extended: true, NonFinite: true, BigUint: true, Hints: true, MaxDepth: 4, Budget: 14, MaxStr: 40, DeepChains: true}
		if x.Thorough {
			oo.Budget, oo.MaxDepth = 30, 8
		}
		var evs []simkit.Ev
		for _, op := range model.GenOps(c, oo) {
			evs = append(evs, model.ExpandOp(op)...)
		}
		return evs, "generated"
	}
}

type prefixResult struct {
	delivered int
	err       error
	panic     *simkit.PanicInfo
	alloc     uint64
	intact    bool
	u         *gotype.Unfolder
	setErr    error
	value     func() interface{}
}

// unfolderVariant is the user-unfolder configuration of the current run (set by
// Run before any unfolder is built; one run at a time per process).
var unfolderVariant int

func deliverPrefix(te *model.TypeEntry, preset interface{}, evs []simkit.Ev, k int, byRef bool, measure func() uint64, x *simkit.Ctx) *prefixResult {
	r := &prefixResult{intact: true}
	ptr, intact, value := te.NewTarget()
	r.value = value
	if preset != nil {
		te.Set(ptr, model.DeepCopy(preset))
	}
	r.panic = simkit.Guard(func() {
		u, err := gotype.NewUnfolder(nil, model.UnfolderOpts(unfolderVariant)...)
		if err != nil {
			r.setErr = err
			return
		}
		r.u = u
		if err := u.SetTarget(ptr); err != nil {
			r.setErr = err
			return
		}
		a0 := measure()
		for i := 0; i < k; i++ {
			if i&8191 == 8191 {
				x.Alive()
			}
			x.Clock++
			r.delivered = i + 1
			if r.err = simkit.Emit(u, evs[i], byRef); r.err != nil {
				break
			}
		}
		r.alloc = measure() - a0
	})
	r.intact = intact()
	return r
}

// soak: ONE unfolder goes through hundreds to tens of thousands of abandoned
// documents (Reset + SetTarget each time) before the probe: state that leaks a
// little per abandoned document and only matters once it has accumulated.
func soak(c *simkit.Choices, x *simkit.Ctx) *simkit.Violation {
	st := x.Stats
	cycles := []int{200, 1000, 3000, 6000, 12000, 25000}[c.N(6)]
	if !x.Thorough && cycles > 12000 {
		cycles = 12000
	}
	// a small pool of (type, stream) pairs, each abandoned at a drawn depth
	type item struct {
		te  *model.TypeEntry
		evs []simkit.Ev
		k   int
	}
	var pool []item
	for i, n := 0, 1+c.N(4); i < n; i++ {
		te := pickType(c, false)
		var evs []simkit.Ev
		if c.Bool() {
			evs = reuse.RecordFold(te.Gen(c))
		}
		if evs == nil {
			for _, op := range model.GenOps(c, model.OpsOpts{Hints: true, MaxDepth: 5, Budget: 12, MaxStr: 10, DeepChains: true}) {
				evs = append(evs, model.ExpandOp(op)...)
			}
		}
		if len(evs) < 2 {
			continue
		}
		pool = append(pool, item{te, evs, 1 + c.N(len(evs)-1)})
	}
	if len(pool) == 0 {
		return nil
	}
	pte := pickType(c, false)
	probe := reuse.RecordFold(pte.Gen(c))
	if probe == nil {
		return nil
	}
	sc := &Scenario{Target: "soak", StreamOf: fmt.Sprintf("%d abandoned documents from a pool of %d", cycles, len(pool)), ProbeType: pte.Name, Probe: simkit.EventsString(probe, 30), K: cycles}
	for _, it := range pool {
		sc.Announced = append(sc.Announced, fmt.Sprintf("%s abandoned after %d of %d events", it.te.Name, it.k, len(it.evs)))
	}
	simkit.SetCurrent(sc)
	st.Eval(1)
	st.Fault("abandon-soak")
	st.Distinct(simkit.NewDigest().Str("soak").Int(cycles).Str(fmt.Sprint(sc.Announced)).Str(sc.Probe).Sum())
	var fresh, got interface{}
	var ferr, gerr error
	if pi := simkit.Guard(func() {
		ptr, _, val := pte.NewTarget()
		u, err := gotype.NewUnfolder(ptr)
		if err != nil {
			ferr = err
			return
		}
		ferr = deliverAll(u, probe, false)
		fresh = model.DeepCopy(val())
	}); pi != nil {
		return nil
	}
	pi := simkit.Guard(func() {
		u, err := gotype.NewUnfolder(nil)
		if err != nil {
			gerr = err
			return
		}
		for i := 0; i < cycles; i++ {
			if i%512 == 0 {
				x.Alive()
			}
			it := pool[i%len(pool)]
			ptr, _, _ := it.te.NewTarget()
			if u.SetTarget(ptr) != nil {
				continue
			}
			for j := 0; j < it.k; j++ {
				if simkit.Emit(u, it.evs[j], false) != nil {
					break
				}
			}
			u.Reset()
		}
		x.Clock += uint64(cycles)
		ptr, _, val := pte.NewTarget()
		if gerr = u.SetTarget(ptr); gerr != nil {
			return
		}
		gerr = deliverAll(u, probe, false)
		got = model.DeepCopy(val())
	})
	if pi != nil {
		return &simkit.Violation{Kind: "panic", Site: "soak" + pi.Site, Detail: pi.Value + "\n" + pi.Stack, Scenario: sc}
	}
	if (gerr == nil) != (ferr == nil) || (ferr == nil && !model.DeepEq(fresh, got)) {
		return &simkit.Violation{Kind: "probe-differs", Site: "soak->" + pte.Name,
			Detail: fmt.Sprintf("after %d abandoned documents on one unfolder the probe built %s (err %v); a new unfolder builds %s (err %v)", cycles, model.Render(got), gerr, model.Render(fresh), ferr), Scenario: sc}
	}
	st.Probe("soak-completed")
	return nil
}

var primTypes = map[string]bool{"Prims": true, "PInt16": true, "[]PUint32": true, "IntList": true, "Lists": true, "[]*Label": true, "map[string]*Label": true, "[]*PInt16": true}

var chainDepths = []int{8, 15, 16, 17, 30, 31, 32, 33, 34, 35, 40, 63, 64, 65, 66, 100, 127, 128, 129, 130}

// genChain draws a document that is one chain of nested containers of drawn
// kinds (with a sibling before the nested one now and then), depth levels deep.
func genChain(c *simkit.Choices, depth int) []simkit.Ev {
	var evs, tail []simkit.Ev
	for l := 0; l < depth; l++ {
		if c.Bool() {
			evs = append(evs, simkit.Ev{K: simkit.KArrStart, I: -1})
			if c.N(3) == 0 {
				evs = append(evs, simkit.Ev{K: simkit.KInt64, I: int64(l)})
			}
			tail = append(tail, simkit.Ev{K: simkit.KArrEnd})
		} else {
			evs = append(evs, simkit.Ev{K: simkit.KObjStart, I: -1})
			if c.N(3) == 0 {
				evs = append(evs, simkit.Ev{K: simkit.KKey, S: "s"}, simkit.Ev{K: simkit.KStr, S: "v"})
			}
			evs = append(evs, simkit.Ev{K: simkit.KKey, S: string(rune('a' + l%3))})
			tail = append(tail, simkit.Ev{K: simkit.KObjEnd})
		}
	}
	evs = append(evs, simkit.Ev{K: simkit.KInt64, I: int64(c.N(1000))})
	for i := len(tail) - 1; i >= 0; i-- {
		evs = append(evs, tail[i])
	}
	return evs
}

// deep: ONE unfolder processes several documents nested deeper than its
// inline stack space, of different shapes, completed or abandoned, with and
// without Reset; every completed document must build what a new unfolder
// builds.
func deep(c *simkit.Choices, x *simkit.Ctx) *simkit.Violation {
	st := x.Stats
	te := model.TypeByName("interface{}")
	nd := 2 + c.N(3)
	sc := &Scenario{Target: "deep-documents", ProbeType: te.Name}
	type docT struct {
		evs   []simkit.Ev
		k     int
		reset bool
	}
	var docs []docT
	for i := 0; i < nd; i++ {
		d := docT{evs: genChain(c, chainDepths[c.N(len(chainDepths))])}
		d.k = len(d.evs)
		if i < nd-1 && c.N(3) == 0 {
			d.k = 1 + c.N(len(d.evs)-1)
		}
		d.reset = d.k < len(d.evs) || c.Bool()
		docs = append(docs, d)
		sc.Announced = append(sc.Announced, fmt.Sprintf("document %d: %d events, delivered %d, Reset afterwards %v: %s", i, len(d.evs), d.k, d.reset, simkit.EventsString(d.evs, 80)))
	}
	simkit.SetCurrent(sc)
	st.Eval(1)
	st.Fault("deep-documents-on-one-unfolder")
	st.Distinct(simkit.NewDigest().Str("deep").Str(fmt.Sprint(sc.Announced)).Sum())
	var v *simkit.Violation
	pi := simkit.Guard(func() {
		u, err := gotype.NewUnfolder(nil)
		if err != nil {
			return
		}
		for i, d := range docs {
			ptr, _, val := te.NewTarget()
			if err := u.SetTarget(ptr); err != nil {
				v = &simkit.Violation{Kind: "probe-differs", Site: "deep/SetTarget", Detail: fmt.Sprintf("SetTarget before document %d: %v", i, err), Scenario: sc}
				return
			}
			var gerr error
			for j := 0; j < d.k && gerr == nil; j++ {
				x.Clock++
				gerr = simkit.Emit(u, d.evs[j], false)
			}
			if d.k == len(d.evs) {
				got := model.DeepCopy(val())
				fptr, _, fval := te.NewTarget()
				fu, _ := gotype.NewUnfolder(fptr)
				ferr := deliverAll(fu, d.evs, false)
				if (ferr == nil) != (gerr == nil) || (ferr == nil && !model.DeepEq(fval(), got)) {
					v = &simkit.Violation{Kind: "probe-differs", Site: "deep->" + te.Name,
						Detail: fmt.Sprintf("document %d on the re-used unfolder: %s (err %v); on a new unfolder: %s (err %v)", i, trunc(model.Render(got), 300), gerr, trunc(model.Render(fval()), 300), ferr), Scenario: sc}
					return
				}
			}
			if d.reset || gerr != nil {
				u.Reset()
			}
		}
	})
	if v != nil {
		return v
	}
	if pi != nil {
		// (a single deep document on a new unfolder panicking is not this scenario's question)
		for _, d := range docs {
			if fp := simkit.Guard(func() {
				ptr, _, _ := te.NewTarget()
				fu, _ := gotype.NewUnfolder(ptr)
				deliverAll(fu, d.evs, false)
			}); fp != nil {
				st.Probe("deep-document-panics-on-a-new-unfolder-too")
				return nil
			}
		}
		return &simkit.Violation{Kind: "panic", Site: "deep" + pi.Site, Detail: pi.Value + "\n" + pi.Stack, Scenario: sc}
	}
	st.Probe("deep-completed")
	return nil
}

// grown: an unfolder that has honestly received a very long array must not
// trust the NEXT document's announced length any more than a new unfolder
// does: allocation on the strength of an announcement is compared between the
// used and a new instance.
func grown(c *simkit.Choices, x *simkit.Ctx) *simkit.Violation {
	st := x.Stats
	te := model.TypeByName([]string{"[]int", "[]interface{}", "interface{}", "[]string", "[]int8", "[]float64", "map[string][]int"}[c.N(7)])
	n := []int{1100, 5000, 70000, 300000}[c.N(4)]
	str := te.Name == "[]string"
	elem := func(i int) simkit.Ev {
		if str {
			return simkit.Ev{K: simkit.KStr, S: "s"}
		}
		return simkit.Ev{K: simkit.KInt64, I: int64(i % 100)}
	}
	wrap := te.Name == "map[string][]int"
	var hist []simkit.Ev
	if wrap {
		hist = append(hist, simkit.Ev{K: simkit.KObjStart, I: 1}, simkit.Ev{K: simkit.KKey, S: "k"})
	}
	ann := int64(-1)
	if c.Bool() {
		ann = int64(n)
	}
	hist = append(hist, simkit.Ev{K: simkit.KArrStart, I: ann})
	for i := 0; i < n; i++ {
		hist = append(hist, elem(i))
	}
	hist = append(hist, simkit.Ev{K: simkit.KArrEnd})
	if wrap {
		hist = append(hist, simkit.Ev{K: simkit.KObjEnd})
	}
	var probe []simkit.Ev
	if wrap {
		probe = append(probe, simkit.Ev{K: simkit.KObjStart, I: 1}, simkit.Ev{K: simkit.KKey, S: "k"})
	}
	probe = append(probe, simkit.Ev{K: simkit.KArrStart, I: inflated[c.N(len(inflated))]}, elem(0))
	reset := c.Bool()
	sc := &Scenario{Target: te.Name, StreamOf: fmt.Sprintf("history: one honest array of %d elements (announced %d), Reset afterwards %v", n, ann, reset),
		ProbeType: te.Name, Probe: simkit.EventsString(probe, 8), Events: len(hist)}
	simkit.SetCurrent(sc)
	st.Eval(1)
	st.Fault("inflated-announcement-after-long-honest-array")
	st.Distinct(simkit.NewDigest().Str("grown" + te.Name).Int(n).Int(int(ann)).Str(sc.Probe).Sum())
	var used, fresh uint64
	pi := simkit.Guard(func() {
		u, err := gotype.NewUnfolder(nil)
		if err != nil {
			return
		}
		ptr, _, _ := te.NewTarget()
		if u.SetTarget(ptr) != nil || deliverAll(u, hist, false) != nil {
			return
		}
		x.Alive()
		if reset {
			u.Reset()
		}
		ptr2, _, _ := te.NewTarget()
		if u.SetTarget(ptr2) != nil {
			return
		}
		a0 := exactAlloc()
		deliverAll(u, probe, false)
		used = exactAlloc() - a0
		ptr3, _, _ := te.NewTarget()
		fu, _ := gotype.NewUnfolder(nil)
		if fu.SetTarget(ptr3) != nil {
			return
		}
		a0 = exactAlloc()
		deliverAll(fu, probe, false)
		fresh = exactAlloc() - a0
	})
	if pi != nil {
		return &simkit.Violation{Kind: "panic", Site: "grown" + pi.Site, Detail: pi.Value + "\n" + pi.Stack, Scenario: sc}
	}
	if used > 2*fresh+256<<10 {
		return &simkit.Violation{Kind: "alloc", Site: "after-history/" + te.Name,
			Detail: fmt.Sprintf("the probe (%d events, announcing a huge array) makes a NEW unfolder allocate %d bytes, but the unfolder that received an array of %d elements before allocates %d bytes", len(probe), fresh, n, used), Scenario: sc}
	}
	st.Probe("grown-completed")
	return nil
}

// unfoldScaling: a slice (or map) target receives N and then 2N elements of
// one shape; the exact allocation must about double. Growth policies that stop
// doubling beyond some byte size are linear for small elements and quadratic
// for large ones.
func unfoldScaling(c *simkit.Choices, x *simkit.Ctx) *simkit.Violation {
	st := x.Stats
	names := []string{"[]Wide", "[]Simple", "[]*Inner", "[]interface{}", "[]string", "[][]string", "map[string]Simple", "[]map[string]interface{}", "[]Score", "[]int64"}
	te := model.TypeByName(names[c.N(len(names))])
	// one element: the fold of a one-element value of the target's type
	var elem []simkit.Ev
	isMap := strings.HasPrefix(te.Name, "map[")
	for try := 0; try < 8 && elem == nil; try++ {
		evs := reuse.RecordFold(te.Gen(c))
		if len(evs) > 2 && ((evs[0].K == simkit.KArrStart && !isMap) || (evs[0].K == simkit.KObjStart && isMap)) {
			body := evs[1 : len(evs)-1]
			if isMap {
				body = body[1:] // drop the key: keys are generated below
			}
			if end := subtreeLen(body); end > 0 {
				elem = append([]simkit.Ev{}, body[:end]...)
			}
		}
	}
	if elem == nil {
		return nil
	}
	n1 := []int{2000, 4000, 10000}[c.N(3)]
	build := func(n int) []simkit.Ev {
		open, close := simkit.KArrStart, simkit.KArrEnd
		if isMap {
			open, close = simkit.KObjStart, simkit.KObjEnd
		}
		out := make([]simkit.Ev, 0, n*(len(elem)+1)+2)
		out = append(out, simkit.Ev{K: open, I: -1})
		for i := 0; i < n; i++ {
			if isMap {
				out = append(out, simkit.Ev{K: simkit.KKey, S: "k" + strconv.Itoa(i)})
			}
			out = append(out, elem...)
		}
		return append(out, simkit.Ev{K: close})
	}
	sc := &Scenario{Target: te.Name, StreamOf: fmt.Sprintf("%d and %d elements, each: %s", n1, 2*n1, simkit.EventsString(elem, 12)), Events: 2 * n1 * len(elem)}
	simkit.SetCurrent(sc)
	st.Eval(2)
	st.Fault("thousands-of-elements-n-and-2n")
	st.Distinct(simkit.NewDigest().Str("unfoldscaling" + te.Name).Int(n1).Str(sc.StreamOf).Sum())
	measure := func(n int) (uint64, error) {
		evs := build(n)
		x.Alive()
		ptr, _, _ := te.NewTarget()
		u, err := gotype.NewUnfolder(ptr)
		if err != nil {
			return 0, err
		}
		a0 := exactAlloc()
		err = deliverAll(u, evs, false)
		a := exactAlloc() - a0
		x.Alive()
		return a, err
	}
	var a1, a2 uint64
	var e1, e2 error
	if pi := simkit.Guard(func() { a1, e1 = measure(n1); a2, e2 = measure(2 * n1) }); pi != nil {
		return &simkit.Violation{Kind: "panic", Site: "unfoldscaling" + pi.Site, Detail: pi.Value + "\n" + pi.Stack, Scenario: sc}
	}
	if e1 != nil || e2 != nil {
		st.Probe("unfold-scaling-refused")
		return nil
	}
	if a2 > 3*a1+1<<20 {
		return &simkit.Violation{Kind: "alloc", Site: "scaling/" + te.Name,
			Detail: fmt.Sprintf("%d elements make the unfolder allocate %d bytes, %d elements %d bytes (x%.1f for twice the elements)", n1, a1, 2*n1, a2, float64(a2)/float64(a1+1)), Scenario: sc}
	}
	st.Probe("unfold-scaling-linear")
	return nil
}

// subtreeLen returns the number of events of the value starting at evs[0].
func subtreeLen(evs []simkit.Ev) int {
	depth := 0
	for i, e := range evs {
		switch e.K {
		case simkit.KArrStart, simkit.KObjStart:
			depth++
		case simkit.KArrEnd, simkit.KObjEnd:
			depth--
		case simkit.KKey:
			continue
		}
		if depth == 0 {
			return i + 1
		}
	}
	return 0
}

func (Engine) Run(c *simkit.Choices, x *simkit.Ctx) *simkit.Violation {
	if c.N(60) == 0 {
		return soak(c, x)
	}
	if c.N(500) == 0 {
		return unfoldScaling(c, x)
	}
	if c.N(300) == 0 {
		return grown(c, x)
	}
	if c.N(40) == 0 {
		return deep(c, x)
	}
	st := x.Stats
	unfolderVariant = 0
	if c.N(4) == 0 {
		unfolderVariant = 1 + c.N(model.NumUnfolderVariants-1)
	}
	te := pickType(c, c.N(20) == 0)
	if unfolderVariant != 0 && c.Bool() {
		te = model.TypeByName([]string{"Score", "[]Score", "map[string]Score", "Scored", "Labeled", "Label", "Prims", "PInt16", "[]PUint32", "IntList", "Lists", "[]*Label", "map[string]*Label", "[]*Score", "[]*PInt16", "map[string]*IntList"}[c.N(16)])
		if c.N(3) == 0 {
			te = &model.TreeEntry // nested activations of one user unfolder
		}
	}
	evs, src := genStream(c, x, te)
	if c.N(1500) == 0 {
		// far beyond every pre-allocated size or narrow counter
		evs, src = extremeStream(c)
		sameTypeSource = nil
		te = model.TypeByName([]string{"[]int", "[]int8", "[]interface{}", "interface{}", "map[string]int", "map[string]interface{}", "[]string", "[]Empty", "[][]string", "Strs"}[c.N(10)])
		unfolderVariant = 0
		st.Probe("extreme-stream")
	}
	var treeSrc *model.Tree
	if te == &model.TreeEntry {
		tr := model.GenTree(c, 0)
		treeSrc, evs, src = &tr, model.TreeEvents(tr), "tree-events"
	}
	if unfolderVariant != 0 {
		src += fmt.Sprintf("+user-unfolders-v%d", unfolderVariant)
	}
	if len(evs) == 0 {
		return nil
	}
	if c.N(4) == 0 {
		// the same values in other integer event kinds (as after a trip
		// through another format): every expectation still holds
		evs = model.RetypeNumbers(c, evs)
		src += "+retyped-integers"
		if treeSrc != nil {
			treeSrc = nil // (its analytic oracle is about exact event kinds)
		}
	}
	if c.N(3) == 0 {
		// shape mismatches at any depth: subtrees replaced, members rotated
		evs = model.MutateStream(c, evs, 1+c.N(3))
		src += "+mutated"
		treeSrc = nil
		sameTypeSource = nil
	}
	// a re-used target: pre-populated with a value of its type (non-nil
	// slices, maps and pointers) in a third of the runs
	var preset interface{}
	if te.Supported && c.N(3) == 0 {
		preset = te.Gen(c)
		src += "+preset-target"
	}
	sc := &Scenario{Target: te.Name, StreamOf: src, Events: len(evs), ByRef: c.Bool()}
	// abandonment point: every k for small streams (one per run, enumerated
	// across the inner loop below), seeded otherwise
	var ks []int
	if len(evs) <= 40 {
		for k := 1; k <= len(evs); k++ {
			ks = append(ks, k)
		}
	} else {
		ks = []int{len(evs)}
		for i := 0; i < 24; i++ {
			ks = append(ks, 1+c.N(len(evs)))
		}
	}
	pte := pickType(c, false)
	if c.N(3) == 0 && te.Supported && !te.FoldOnly {
		pte = te // the same type again after the restart: cached unfolders
	}
	if unfolderVariant != 0 && c.N(6) == 0 {
		pte = &model.TreeEntry
	}
	probeVal := pte.Gen(c)
	probe := reuse.RecordFold(probeVal)
	if probe == nil {
		st.Probe("probe-not-foldable")
		return nil
	}
	sc.ProbeType, sc.Probe = pte.Name, simkit.EventsString(probe, 30)
	// reference: a new unfolder on the probe stream
	var fresh interface{}
	var ferr error
	if pi := simkit.Guard(func() {
		ptr, _, val := pte.NewTarget()
		u, err := gotype.NewUnfolder(ptr, model.UnfolderOpts(unfolderVariant)...)
		if err != nil {
			ferr = err
			return
		}
		ferr = deliverAll(u, probe, sc.ByRef)
		fresh = model.DeepCopy(val())
	}); pi != nil {
		st.Probe("fresh-unfolder-panics-on-probe")
		return nil
	}
	var idle []int
	if u, err := gotype.NewUnfolder(nil); err == nil {
		if d, ok := simkit.Depths(u); ok {
			idle = append(idle, d...)
		}
	}

	// restart: Reset, SetTarget, probe document (the unfolder of the abandoned
	// document, or the one whose SetTarget was refused)
	restart := func(ru *gotype.Unfolder, site string) *simkit.Violation {
		var got interface{}
		var gerr error
		var v *simkit.Violation
		pi := simkit.Guard(func() {
			u := ru
			u.Reset()
			if d, ok := simkit.Depths(u); ok && !reflect.DeepEqual(d, idle) {
				v = &simkit.Violation{Kind: "stack-not-idle", Site: site,
					Detail: fmt.Sprintf("after Reset the unfolder stacks are %v, a new unfolder has %v", d, idle), Scenario: sc}
				return
			}
			ptr, intact, val := pte.NewTarget()
			if err := u.SetTarget(ptr); err != nil {
				gerr = err
				return
			}
			gerr = deliverAll(u, probe, sc.ByRef)
			got = model.DeepCopy(val())
			if !intact() {
				v = &simkit.Violation{Kind: "memory-corrupted", Site: pte.Name, Detail: "sentinel words around the probe target were overwritten", Scenario: sc}
			}
		})
		if pi != nil {
			return &simkit.Violation{Kind: "panic", Site: "after-reset" + pi.Site,
				Detail: fmt.Sprintf("probe after Reset: %s\n%s", pi.Value, pi.Stack), Scenario: sc}
		}
		if v != nil {
			return v
		}
		if (gerr == nil) != (ferr == nil) || (ferr == nil && !model.DeepEq(fresh, got)) {
			return &simkit.Violation{Kind: "probe-differs", Site: site + "->" + pte.Name,
				Detail: fmt.Sprintf("probe after abandon+Reset built %s (err %v); a new unfolder builds %s (err %v)", model.Render(got), gerr, model.Render(fresh), ferr), Scenario: sc}
		}
		return nil
	}

	for _, k := range ks {
		x.Alive()
		stream := append([]simkit.Ev{}, evs...)
		sc.K = k
		sc.Announced = nil
		// inflate the announced length of containers still open at the
		// abandonment point (their elements never arrive)
		if k < len(evs) && c.N(2) == 0 {
			depth := 0
			var open []int
			for i := 0; i < k; i++ {
				switch stream[i].K {
				case simkit.KArrStart, simkit.KObjStart:
					open = append(open, i)
					depth++
				case simkit.KArrEnd, simkit.KObjEnd:
					open = open[:len(open)-1]
					depth--
				}
			}
			for _, i := range open {
				if c.N(2) == 0 {
					l := inflated[c.N(len(inflated))]
					if ov := overflowLens(te); len(ov) > 0 && c.N(3) == 0 {
						// a length whose product with an element size of the
						// target wraps around to a small positive number
						l = ov[c.N(len(ov))] + int64(c.N(3))
					}
					stream[i].I = l
					sc.Announced = append(sc.Announced, fmt.Sprintf("event %d announces %d", i, l))
					st.Fault("announced-length-inflated")
				}
			}
		}
		sc.Stream = simkit.EventsString(stream[:k], 40)
		simkit.SetCurrent(sc)
		st.Eval(1)
		st.Fault("abandon-at-k")
		st.Distinct(simkit.NewDigest().Str(te.Name).Str(sc.Stream).Int(k).Str(fmt.Sprint(sc.Announced)).Str(pte.Name).Sum())

		r := deliverPrefix(te, preset, stream, k, sc.ByRef, cheapAlloc, x)
		site := te.Name
		if r.panic != nil {
			return &simkit.Violation{Kind: "panic", Site: r.panic.Site + "/" + simkit.NormalisePanic(r.panic.Value),
				Detail: fmt.Sprintf("target %s, event %d: %s\n%s", te.Name, r.delivered, r.panic.Value, r.panic.Stack), Scenario: sc}
		}
		if !r.intact {
			return &simkit.Violation{Kind: "memory-corrupted", Site: site,
				Detail: "sentinel words around the target were overwritten", Scenario: sc}
		}
		if r.setErr != nil {
			if te.Supported {
				return &simkit.Violation{Kind: "target-refused", Site: site, Detail: "SetTarget refused a supported type: " + r.setErr.Error(), Scenario: sc}
			}
			st.Probe("unsupported-target-refused")
			if r.u == nil {
				return nil
			}
			// a refusal leaves nothing behind: the same unfolder refuses the
			// type, and every type that contains it, again and again (a new
			// unfolder does), and then processes the probe like a new one
			var v *simkit.Violation
			if pi := simkit.Guard(func() {
				for round := 0; round < 2 && v == nil; round++ {
					for _, name := range []string{te.Name, "HasBad", "[]BadField", "BadField", "map[int]string", "IfaceField", "HasIface"} {
						bte := model.TypeByName(name)
						if round == 1 {
							r.u.Reset()
						}
						ptr, _, _ := bte.NewTarget()
						if err := r.u.SetTarget(ptr); err == nil {
							v = &simkit.Violation{Kind: "unsupported-target-accepted", Site: site + "/after-refusal->" + name,
								Detail: fmt.Sprintf("SetTarget refused a %s; the same unfolder then ACCEPTED a %s, which a new unfolder refuses", te.Name, name), Scenario: sc}
							return
						}
					}
				}
			}); pi != nil {
				return &simkit.Violation{Kind: "panic", Site: "after-refusal" + pi.Site,
					Detail: fmt.Sprintf("SetTarget after a refused SetTarget: %s\n%s", pi.Value, pi.Stack), Scenario: sc}
			}
			if v != nil {
				return v
			}
			st.Probe("refused-again-after-refusal")
			return restart(r.u, site+"/after-refusal")
		}
		if !te.Supported {
			return &simkit.Violation{Kind: "unsupported-target-accepted", Site: site,
				Detail: "SetTarget accepted a target type the library cannot handle safely", Scenario: sc}
		}
		// proportional to what was actually received: a constant per event
		// (the library pre-allocates at most 1024 elements on the strength of
		// an announced length, so the constant depends on the largest slice
		// element of the target) plus the string payload (copied once by the
		// library and once by the by-reference delivery of this harness)
		payload := 0
		for _, e := range stream[:r.delivered] {
			payload += len(e.S)
		}
		if lim := uint64(1<<20) + uint64(r.delivered)*perEventAllowance(te) + 4*uint64(payload); r.alloc > lim {
			r2 := deliverPrefix(te, preset, stream, k, sc.ByRef, exactAlloc, &simkit.Ctx{Stats: st})
			if r2.alloc > lim {
				return &simkit.Violation{Kind: "alloc", Site: site,
					Detail: fmt.Sprintf("%d bytes allocated for %d delivered events (bound %d)", r2.alloc, r.delivered, lim), Scenario: sc}
			}
			st.Probe("alloc-counter-noise-filtered")
		}
		if treeSrc != nil && k == len(evs) && len(sc.Announced) == 0 && preset == nil {
			// ground truth for the self-nesting user unfolder: every node's V + 1000
			want := model.TreeExpected(*treeSrc)
			if r.err != nil || !model.DeepEq(want, r.value()) {
				return &simkit.Violation{Kind: "value-corrupted", Site: "Tree/nested-user-unfolder",
					Detail: fmt.Sprintf("a matching document for a type whose user-defined processing unfolder nests: want %s, got %s (err %v)", model.Render(want), model.Render(r.value()), r.err), Scenario: sc}
			}
			st.Probe("nested-user-unfolder-exact")
		}
		if sameTypeSource != nil && k == len(evs) && len(sc.Announced) == 0 && preset == nil && unfolderVariant != 0 && primTypes[te.Name] {
			// ground truth for the primitive user unfolders: every P<Kind> value
			// comes back with the same V (the fold ignores Tag)
			want, got := reuse.RecordFold(sameTypeSource), reuse.RecordFold(r.value())
			if r.err != nil || simkit.DiffEvents(want, got) >= 0 {
				return &simkit.Violation{Kind: "value-corrupted", Site: te.Name + "/primitive-user-unfolder",
					Detail: fmt.Sprintf("the complete fold of a %s was unfolded through user-defined primitive unfolders: want %s, got %s (err %v)", te.Name, model.Render(sameTypeSource), model.Render(r.value()), r.err), Scenario: sc}
			}
			st.Probe("primitive-user-unfolder-exact")
		}
		if sameTypeSource != nil && k == len(evs) && len(sc.Announced) == 0 && preset == nil && unfolderVariant == 0 && te.ExactRoundTrip() {
			// ground truth: the fold of a value of the target's own type, delivered
			// completely into a zero target, reproduces the value (measured to be
			// exact for these types on the pinned tree)
			if r.err != nil || !model.DeepEqLoose(sameTypeSource, r.value()) {
				return &simkit.Violation{Kind: "value-corrupted", Site: te.Name + "/round-trip",
					Detail: fmt.Sprintf("the complete fold of a %s was unfolded into a zero %s: want %s, got %s (err %v)", te.Name, te.Name, model.Render(sameTypeSource), model.Render(r.value()), r.err), Scenario: sc}
			}
			st.Probe("matching-document-exact")
		}
		if r.err == nil && k == len(evs) && preset != nil && plainStruct[te.Name] {
			if why := untouchedFieldsChanged(preset, r.value(), stream); why != "" {
				return &simkit.Violation{Kind: "memory-corrupted", Site: site + "/sibling-field",
					Detail: "a complete document was unfolded without error into a pre-populated struct, but a field the document does not mention changed: " + why, Scenario: sc}
			}
		}
		if r.err != nil {
			st.Probe("abandoned-after-error")
		} else if k < len(evs) {
			st.Probe("abandoned-mid-document")
		} else {
			st.Probe("document-completed")
		}

		if v := restart(r.u, site); v != nil {
			return v
		}
	}
	st.Sample(map[string]interface{}{"target": te.Name, "stream": src, "events": len(evs), "abandon_points": len(ks), "probe_type": pte.Name})
	return nil
}

// plainStruct lists the catalogue structs that are unfolded field by field
// under the plain naming rule (no tags, no user-defined unfolding).
var plainStruct = map[string]bool{"Inner": true, "Simple": true, "Wide": true, "PackedU8": true, "PackedI8": true, "PackedBool": true,
	"PackedU16": true, "PackedI16": true, "PackedU32": true, "PackedI32": true, "PackedF32": true, "PackedMix": true}

// untouchedFieldsChanged compares, for plain struct targets (no tags), every
// field whose lower-cased name is not a top-level key of the stream between
// the pre-populated value and the result.
func untouchedFieldsChanged(before, after interface{}, evs []simkit.Ev) string {
	bv, av := reflect.ValueOf(before), reflect.ValueOf(after)
	if bv.Kind() != reflect.Struct || av.Type() != bv.Type() || len(evs) == 0 || evs[0].K != simkit.KObjStart {
		return ""
	}
	mentioned := map[string]bool{}
	depth := 0
	for _, e := range evs {
		switch e.K {
		case simkit.KObjStart, simkit.KArrStart:
			depth++
		case simkit.KObjEnd, simkit.KArrEnd:
			depth--
		case simkit.KKey:
			if depth == 1 {
				mentioned[e.S] = true
			}
		}
	}
	t := bv.Type()
	for i := 0; i < t.NumField(); i++ {
		f := t.Field(i)
		if f.PkgPath != "" || f.Tag != "" {
			return "" // tagged structs: the name mapping is not the plain one
		}
	}
	for i := 0; i < t.NumField(); i++ {
		f := t.Field(i)
		if mentioned[strings.ToLower(f.Name)] {
			continue
		}
		if !model.DeepEq(bv.Field(i).Interface(), av.Field(i).Interface()) {
			return fmt.Sprintf("field %s was %s, is %s", f.Name, model.Render(bv.Field(i).Interface()), model.Render(av.Field(i).Interface()))
		}
	}
	return ""
}

func deliverAll(u *gotype.Unfolder, evs []simkit.Ev, byRef bool) error {
	for _, e := range evs {
		if err := simkit.Emit(u, e, byRef); err != nil {
			return err
		}
	}
	return nil
}

var _ structform.Visitor = (*gotype.Unfolder)(nil)

func trunc(s string, n int) string {
	if len(s) > n {
		return s[:n] + "…"
	}
	return s
}

// extremeStream draws a well-formed stream with very many elements or members,
// very deep nesting or a very long string.
func extremeStream(c *simkit.Choices) ([]simkit.Ev, string) {
	counts := []int{255, 256, 257, 65535, 65536, 65537, 100001}
	var evs []simkit.Ev
	switch c.N(4) {
	case 0:
		n := counts[c.N(len(counts))]
		ann := int64(-1)
		if c.Bool() {
			ann = int64(n)
		}
		evs = append(evs, simkit.Ev{K: simkit.KArrStart, I: ann})
		for i := 0; i < n; i++ {
			evs = append(evs, simkit.Ev{K: simkit.KInt64, I: int64(i % 100)})
		}
		return append(evs, simkit.Ev{K: simkit.KArrEnd}), fmt.Sprintf("extreme: array of %d integers", n)
	case 1:
		n := counts[c.N(len(counts))]
		evs = append(evs, simkit.Ev{K: simkit.KObjStart, I: -1})
		for i := 0; i < n; i++ {
			evs = append(evs, simkit.Ev{K: simkit.KKey, S: fmt.Sprintf("k%06d", i)}, simkit.Ev{K: simkit.KInt64, I: int64(i % 100)})
		}
		return append(evs, simkit.Ev{K: simkit.KObjEnd}), fmt.Sprintf("extreme: object of %d members", n)
	case 2:
		n := []int{1025, 10001, 65537, 100001}[c.N(4)]
		for i := 0; i < n; i++ {
			evs = append(evs, simkit.Ev{K: simkit.KArrStart, I: -1})
		}
		evs = append(evs, simkit.Ev{K: simkit.KStr, S: "leaf"})
		for i := 0; i < n; i++ {
			evs = append(evs, simkit.Ev{K: simkit.KArrEnd})
		}
		return evs, fmt.Sprintf("extreme: %d nested arrays", n)
	default:
		n := []int{65535, 65536, 65537, 1<<20 + 1}[c.N(4)]
		return []simkit.Ev{{K: simkit.KArrStart, I: 1}, {K: simkit.KStr, S: strings.Repeat("s", n)}, {K: simkit.KArrEnd}}, fmt.Sprintf("extreme: string of %d bytes", n)
	}
}

var allowance = map[string]uint64{}

// perEventAllowance returns 4 KiB + 1024 x the size of the largest slice
// element reachable in the target type (16 bytes for what interface{} targets
// build: []interface{}).
func perEventAllowance(te *model.TypeEntry) uint64 {
	if a, ok := allowance[te.Name]; ok {
		return a
	}
	max := uintptr(16)
	seen := map[reflect.Type]bool{}
	var walk func(t reflect.Type)
	walk = func(t reflect.Type) {
		if seen[t] {
			return
		}
		seen[t] = true
		switch t.Kind() {
		case reflect.Slice:
			if t.Elem().Size() > max {
				max = t.Elem().Size()
			}
			walk(t.Elem())
		case reflect.Ptr, reflect.Array:
			walk(t.Elem())
		case reflect.Map:
			walk(t.Elem())
		case reflect.Struct:
			for i := 0; i < t.NumField(); i++ {
				walk(t.Field(i).Type)
			}
		}
	}
	ptr, _, _ := te.NewTarget()
	walk(reflect.TypeOf(ptr).Elem())
	a := 4096 + 1024*uint64(max)
	allowance[te.Name] = a
	return a
}

var overflow = map[string][]int64{}

// overflowLens returns announced lengths L (positive int64) for which L x s
// wraps modulo 2^64 to a small positive number, for every slice element size
// s >= 3 reachable in the target type and for the usual word multiples: a size
// computation in bytes that is not checked for overflow lets them through.
func overflowLens(te *model.TypeEntry) []int64 {
	if o, ok := overflow[te.Name]; ok {
		return o
	}
	sizes := map[uint64]bool{4: true, 8: true, 16: true, 24: true, 32: true}
	seen := map[reflect.Type]bool{}
	var walk func(t reflect.Type)
	walk = func(t reflect.Type) {
		if seen[t] {
			return
		}
		seen[t] = true
		switch t.Kind() {
		case reflect.Slice:
			sizes[uint64(t.Elem().Size())] = true
			walk(t.Elem())
		case reflect.Ptr, reflect.Array, reflect.Map:
			walk(t.Elem())
		case reflect.Struct:
			for i := 0; i < t.NumField(); i++ {
				walk(t.Field(i).Type)
			}
		}
	}
	ptr, _, _ := te.NewTarget()
	walk(reflect.TypeOf(ptr).Elem())
	var out []int64
	for s := range sizes {
		if s < 3 {
			continue
		}
		l := ^uint64(0)/s + 1 // smallest L with L*s >= 2^64
		if l <= 1<<63-4 {
			out = append(out, int64(l))
		}
		if l2 := 2 * l; l2 > l && l2 <= 1<<63-4 {
			out = append(out, int64(l2))
		}
	}
	sort.Slice(out, func(i, j int) bool { return out[i] < out[j] })
	overflow[te.Name] = out
	return out
}
