// Package alias decides C15: values stored by unfolding never alias transient
// buffers (caller chunk buffers, reader buffers, the parser's internal
// buffers, unfolder scratch slots), unsafe conversions stay valid, and results
// do not depend on a garbage collection running between two events. The
// simulated environment is hostile to aliasing: every buffer is scribbled as
// soon as the library has returned, the same parser and unfolder go on to
// process further documents, and GC cycles fire at seeded event boundaries.
// Workers are built with -race (checkptr) and run with GODEBUG=clobberfree=1.
package alias

import (
	"encoding/hex"
	"fmt"
	"io"
	"runtime"

	structform "github.com/elastic/go-structform"
	"github.com/elastic/go-structform/gotype"
	"github.com/elastic/go-structform/visitors"

	"verif/engines/common"
	"verif/engines/reuse"
	"verif/model"
	"verif/simkit"
)

type Scenario struct {
	Mode        string   `json:"mode"` // unfold | encode
	Format      string   `json:"format"`
	Target      string   `json:"target_type"`
	Docs        []string `json:"docs_hex,omitempty"`
	Entry       string   `json:"entry,omitempty"`
	Cuts        [][]int  `json:"per_doc_cuts,omitempty"`
	Reads       []int    `json:"read_sizes,omitempty"`
	BufSize     int      `json:"bufsize,omitempty"`
	GCAt        [][]int  `json:"gc_at_events,omitempty"`
	KeyCache    int      `json:"key_cache,omitempty"`
	Methods     []string `json:"methods_on_one_parser,omitempty"` // entry "mixed"
	Reset       bool     `json:"reset_between_docs,omitempty"`
	SameTarget  bool     `json:"same_target_for_all_docs,omitempty"` // every document is unfolded into the one, never cleared target
	DupKeys     bool     `json:"duplicate_keys,omitempty"`
	Value       string   `json:"go_value,omitempty"`
	UserFolders int      `json:"user_folders,omitempty"` // model.FolderOpts variant (encode mode)
}

type Engine struct{}

var entries = []string{"write", "write", "parse", "parse-reused-buffer", "parsestring", "reader", "decoder-reader", "decoder-bytes", "mixed", "mixed"}

func scribble(b []byte) {
	for i := range b {
		b[i] = 0xA5
	}
}

func pickStringType(c *simkit.Choices) *model.TypeEntry {
	return model.PickType(c, true, true, false)
}

func writeDoc(c *simkit.Choices, f model.Format, v model.Val) []byte {
	switch f {
	case model.JSON:
		return append(model.WriteJSONStream(c, []model.Val{v}, false).Bytes, '\n')
	case model.CBOR:
		return model.WriteCBORStream(c, []model.Val{v}).Bytes
	}
	st := model.DrawUBStyle(c)
	return model.WriteUBJSONStream(c, []model.Val{v}, st).Bytes
}

// withByte completes visitors.StringConvVisitor to a structform.Visitor (it
// has every method but OnByte).
type withByte struct{ *visitors.StringConvVisitor }

func (w withByte) OnByte(b byte) error { return w.OnUint8(b) }

// stringConv: parser -> visitors.StringConvVisitor -> Unfolder. Every scalar
// arrives as a string (null "", booleans true/false, integers in decimal);
// the strings the helper MAKES are stored in the target like any other and
// must stay what they were when later values are converted.
func stringConv(c *simkit.Choices, x *simkit.Ctx) *simkit.Violation {
	st := x.Stats
	f := model.Formats[c.N(3)]
	cd := common.ByName(f)
	var want func(depth int) (model.Val, interface{})
	want = func(depth int) (model.Val, interface{}) {
		switch k := c.N(7); {
		case k == 0:
			return model.Val{K: model.VNull}, ""
		case k == 1:
			b := c.Bool()
			return model.Bool(b), fmt.Sprint(b)
		case k == 2:
			s := model.GenText(c, 12)
			return model.Text(s), s
		case k <= 4 || depth >= 2:
			v := model.GenInt(c)
			if !v.FitsInt64() && (v.Neg || f == model.JSON) {
				v = model.Int(int64(c.N(100000)))
			}
			return v, v.IntString()
		case k == 5:
			a := model.Val{K: model.VArr}
			out := []interface{}{}
			for i, n := 0, 1+c.N(6); i < n; i++ {
				v, w := want(depth + 1)
				a.A = append(a.A, v)
				out = append(out, w)
			}
			return a, out
		default:
			key := model.GenKey(c, 6)
			v, w := want(depth + 1)
			return model.Val{K: model.VObj, Keys: []string{key}, A: []model.Val{v}}, map[string]interface{}{key: w}
		}
	}
	arr := model.Val{K: model.VArr}
	exp := []interface{}{}
	for i, n := 0, 2+c.N(8); i < n; i++ {
		v, w := want(0)
		arr.A = append(arr.A, v)
		exp = append(exp, w)
	}
	d := writeDoc(c, f, arr)
	var cuts []int
	for j, k := 0, c.N(4); j < k; j++ {
		cuts = append(cuts, c.N(len(d)+1))
	}
	sortInts(cuts)
	sc := &Scenario{Mode: "stringconv", Format: string(f), Target: "interface{}", Docs: []string{hex.EncodeToString(d)}, Cuts: [][]int{cuts}, Entry: "write"}
	simkit.SetCurrent(sc)
	st.Eval(1)
	st.Fault("chunk-buffer-scribbled-after-write")
	st.Distinct(simkit.NewDigest().Str("stringconv" + string(f)).Bytes(d).Ints(cuts).Sum())
	var got interface{}
	var err error
	pi := simkit.Guard(func() {
		u, e := gotype.NewUnfolder(&got)
		if e != nil {
			err = e
			return
		}
		conv := visitors.NewStringConvVisitor(structform.EnsureExtVisitor(u))
		_, err = simkit.Feed(cd.NewParser(withByte{conv}), d, cuts, true, &x.Clock)
		runtime.GC()
	})
	site := "stringconv/" + string(f)
	if pi != nil {
		return &simkit.Violation{Kind: "panic", Site: site + pi.Site, Detail: pi.Value + "\n" + pi.Stack, Scenario: sc}
	}
	if err != nil {
		st.Probe("stringconv-refused")
		return nil
	}
	// (a typed container in the source - UBJSON [$S#... - makes the unfolder
	// build []string / map[string]string instead of the interface containers:
	// the same strings, another static type)
	got = untype(got)
	if !model.DeepEq(exp, got) {
		return &simkit.Violation{Kind: "alias", Site: site,
			Detail: fmt.Sprintf("values converted to strings by visitors.StringConvVisitor and stored by the unfolder: want %s | got %s", model.Render(exp), model.Render(got)), Scenario: sc}
	}
	st.Probe("stringconv-exact")
	return nil
}

func (Engine) Run(c *simkit.Choices, x *simkit.Ctx) *simkit.Violation {
	if c.N(5) == 0 {
		return encodeGC(c, x)
	}
	if c.N(25) == 0 {
		return stringConv(c, x)
	}
	return unfoldAlias(c, x)
}

func unfoldAlias(c *simkit.Choices, x *simkit.Ctx) *simkit.Violation {
	st := x.Stats
	f := model.Formats[c.N(3)]
	cd := common.ByName(f)
	te := pickStringType(c)
	nd := 1 + c.N(4)
	sc := &Scenario{Mode: "unfold", Format: string(f), Target: te.Name, Entry: entries[c.N(len(entries))]}
	if c.N(4) == 0 {
		sc.KeyCache = 1 + c.N(4)
	}
	sc.Reset = c.N(3) == 0 // Unfolder.Reset() between documents, as its doc comment recommends
	uv := 0
	if c.N(5) == 0 {
		uv = 1 + c.N(model.NumUnfolderVariants-1)
		if c.Bool() {
			te = model.TypeByName([]string{"Scored", "map[string]Score", "Labeled", "Label", "Labeled", "Prims", "Lists", "[]*Label", "map[string]*Label"}[c.N(9)])
			sc.Target = te.Name
		}
	}
	sc.SameTarget = c.N(3) == 0
	if sc.SameTarget && nd == 1 {
		nd = 2
	}
	var docs [][]byte
	var sources []interface{}
	for i := 0; i < nd; i++ {
		srcVal := te.Gen(c)
		if i > 0 && sc.SameTarget && c.Bool() {
			// the same value again: every key it brings is already in the target
			srcVal = sources[c.N(len(sources))]
		}
		sources = append(sources, srcVal)
		evs := reuse.RecordFold(srcVal)
		if evs == nil {
			st.Probe("value-not-foldable")
			return nil
		}
		v, err := model.ValFromEvents(evs)
		if err != nil {
			st.Probe("fold-stream-malformed")
			return nil
		}
		fv, ok := model.ForFormat(v, f)
		if !ok {
			st.Probe("value-not-representable")
			return nil
		}
		if c.N(8) == 0 {
			fv = model.DupMember(c, fv)
			sc.DupKeys = true // (the exact round-trip ground truth does not apply: a target may keep both)
		}
		d := writeDoc(c, f, fv)
		docs = append(docs, d)
		sc.Docs = append(sc.Docs, hex.EncodeToString(d))
		var cuts []int
		if len(d) > 1 {
			switch c.N(3) {
			case 0: // one byte per write
				for p := 1; p < len(d); p++ {
					cuts = append(cuts, p)
				}
			case 1:
				for j, k := 0, 1+c.Small(8); j < k; j++ {
					cuts = append(cuts, c.N(len(d)+1))
				}
				sortInts(cuts)
			}
		}
		sc.Cuts = append(sc.Cuts, cuts)
		var gcAt []int
		for j, k := 0, c.N(3); j < k; j++ {
			gcAt = append(gcAt, c.N(len(evs)+1))
		}
		sc.GCAt = append(sc.GCAt, gcAt)
	}
	if sc.Entry == "mixed" {
		// ONE parser instance used through different methods, document by document
		ms := []string{"write", "parse", "parsestring"}
		if f == model.UBJSON {
			ms = append(ms, "parsereader")
		}
		if f != model.JSON {
			// one document through TWO methods: the head through Write, the rest
			// (and the end of the input) through Parse / ParseString
			ms = append(ms, "write+parsestring", "write+parse")
		}
		for range docs {
			sc.Methods = append(sc.Methods, ms[c.N(len(ms))])
		}
	}
	sc.BufSize = common.DrawBufSize(c)
	for i, n := 0, 1+c.N(3); i < n; i++ {
		sc.Reads = append(sc.Reads, 1+c.N(12))
	}
	simkit.SetCurrent(sc)
	st.Eval(1)
	st.Distinct(simkit.NewDigest().Str(string(f) + te.Name + sc.Entry).Str(fmt.Sprint(sc.Docs, sc.Cuts, sc.GCAt, sc.Reads, sc.Methods, sc.SameTarget)).Int(sc.BufSize).Int(sc.KeyCache).Sum())

	// benign reference: fresh instances, immutable input, whole buffer, no GC
	var ref []interface{}
	var refPtr interface{}
	var refGet func() interface{}
	for _, d := range docs {
		var val interface{}
		var err error
		pi := simkit.Guard(func() {
			ptr, _, get := te.NewTarget()
			if sc.SameTarget {
				if refPtr == nil {
					refPtr, refGet = ptr, get
				}
				ptr, get = refPtr, refGet
			}
			u, e := gotype.NewUnfolder(ptr, model.UnfolderOpts(uv)...)
			if e != nil {
				err = e
				return
			}
			err = cd.Parse(simkit.Exact(d), u)
			val = model.DeepCopy(get())
		})
		if pi != nil || err != nil {
			st.Probe("benign-run-refused")
			return nil // the benign run itself fails: not an aliasing question
		}
		ref = append(ref, val)
		// ground truth for the whole chain value -> fold -> independent writer
		// -> parser -> unfold, for the types whose round trip is exact on the
		// pinned tree: a wrong pointer conversion on the fold or unfold side
		// shows here even if it is wrong in the same way in every environment
		if uv == 0 && !sc.SameTarget && !sc.DupKeys && te.ExactRoundTrip() && len(sources) == len(docs) && !model.DeepEqLooseZero(sources[len(ref)-1], val) {
			return &simkit.Violation{Kind: "round-trip-value-differs", Site: string(f) + "/" + te.Name,
				Detail: fmt.Sprintf("value -> Fold -> %s document -> Parse -> Unfold: source %s | result %s", f, model.Render(sources[len(ref)-1]), model.Render(val)), Scenario: sc}
		}
	}

	// hostile run
	type kept struct {
		ptr  interface{}
		get  func() interface{}
		snap interface{}
	}
	var keep []kept
	var runErr error
	var failedDoc int
	gcCount := 0
	pi := simkit.Guard(func() {
		u, err := gotype.NewUnfolder(nil, model.UnfolderOpts(uv)...)
		if err != nil {
			runErr = err
			return
		}
		if sc.KeyCache > 0 {
			u.EnableKeyCache(sc.KeyCache)
		}
		tap := simkit.NewTap(u)
		tap.NoRecord = true
		tap.Clock = &x.Clock
		var gcAt []int
		tap.Hook = func(idx int, ev *simkit.Ev) error {
			for _, g := range gcAt {
				if g == idx {
					runtime.GC()
					gcCount++
				}
			}
			return nil
		}
		var parser interface {
			Write([]byte) (int, error)
		}
		var dec common.Decoder
		var stream, callerBuf []byte
		for _, d := range docs {
			stream = append(stream, d...)
		}
		switch sc.Entry {
		case "write", "mixed":
			parser = cd.NewParser(tap)
		case "decoder-reader":
			dec = cd.NewDecoder(&simkit.Reader{Data: simkit.Exact(stream), Sizes: sc.Reads, Clock: &x.Clock}, sc.BufSize, tap)
		case "decoder-bytes":
			stream = simkit.Exact(stream)
			dec = cd.NewBytesDecoder(stream, tap)
		}
		off := 0
		for i, d := range docs {
			x.Alive()
			failedDoc = i
			ptr, _, get := te.NewTarget()
			if sc.SameTarget && len(keep) > 0 {
				ptr, get = keep[0].ptr, keep[0].get
			}
			if err := u.SetTarget(ptr); err != nil {
				runErr = err
				return
			}
			tap.Count = 0
			gcAt = sc.GCAt[i]
			switch sc.Entry {
			case "write":
				_, runErr = simkit.Feed(parser, d, sc.Cuts[i], true, &x.Clock)
			case "parse":
				buf := simkit.Exact(d)
				runErr = cd.Parse(buf, tap)
				scribble(buf)
			case "parse-reused-buffer":
				// the caller reads record after record into ONE buffer: the next
				// document lands on the addresses of the previous one
				if callerBuf == nil {
					m := 0
					for _, dd := range docs {
						if len(dd) > m {
							m = len(dd)
						}
					}
					callerBuf = make([]byte, m)
				}
				n := copy(callerBuf, d)
				runErr = cd.Parse(callerBuf[:n:n], tap)
				if i == len(docs)-1 {
					scribble(callerBuf)
				}
			case "parsestring":
				// strings are immutable: the input cannot be scribbled, but
				// the parser's internal buffers are still reused
				runErr = cd.ParseString(string(d), tap)
			case "reader":
				buf := simkit.Exact(d)
				_, runErr = cd.ParseReader(&simkit.Reader{Data: buf, Sizes: sc.Reads, Clock: &x.Clock}, tap)
				scribble(buf)
			case "mixed":
				type methods interface {
					Parse([]byte) error
					ParseString(string) error
				}
				pm := parser.(methods)
				switch sc.Methods[i] {
				case "write":
					_, runErr = simkit.Feed(parser, d, sc.Cuts[i], true, &x.Clock)
				case "parse":
					buf := simkit.Exact(d)
					runErr = pm.Parse(buf)
					scribble(buf)
				case "parsestring":
					runErr = pm.ParseString(string(d))
				case "write+parsestring", "write+parse":
					cut := len(d) / 2
					if len(sc.Cuts[i]) > 0 {
						cut = sc.Cuts[i][0]
					}
					if _, runErr = simkit.Feed(parser, d[:cut], nil, true, &x.Clock); runErr == nil {
						if sc.Methods[i] == "write+parse" {
							buf := simkit.Exact(d[cut:])
							runErr = pm.Parse(buf)
							scribble(buf)
						} else {
							runErr = pm.ParseString(string(d[cut:]))
						}
					}
				default:
					buf := simkit.Exact(d)
					_, runErr = parser.(interface {
						ParseReader(io.Reader) (int64, error)
					}).ParseReader(&simkit.Reader{Data: buf, Sizes: sc.Reads, Clock: &x.Clock})
					scribble(buf)
				}
			case "decoder-reader":
				runErr = dec.Next()
			case "decoder-bytes":
				runErr = dec.Next()
				// the consumed part of the caller's slice is overwritten
				end := off + len(d)
				if f == model.JSON {
					end-- // the trailing delimiter may still be unread
				}
				scribble(stream[off:end])
			}
			off += len(d)
			if runErr != nil {
				return
			}
			keep = append(keep, kept{ptr: ptr, get: get, snap: model.DeepCopy(get())})
			if sc.Reset {
				u.Reset()
			}
		}
		// everything the library might still alias is gone now
		runtime.GC()
	})
	site := string(f) + "/" + sc.Entry
	if pi != nil {
		return &simkit.Violation{Kind: "panic", Site: site + pi.Site, Detail: pi.Value + "\n" + pi.Stack, Scenario: sc}
	}
	if runErr != nil {
		return &simkit.Violation{Kind: "hostile-run-error", Site: site,
			Detail: fmt.Sprintf("document %d is unfolded without error from an immutable whole buffer but fails in the hostile environment: %v", failedDoc, runErr), Scenario: sc}
	}
	st.ProbeN("gc-at-event-boundary", gcCount)
	for range docs {
		switch sc.Entry {
		case "write":
			st.Fault("chunk-buffer-scribbled-after-write")
		case "parse", "reader", "decoder-bytes":
			st.Fault("input-scribbled-after-call")
		case "parse-reused-buffer":
			st.Fault("input-buffer-overwritten-by-next-document")
		case "decoder-reader":
			st.Fault("reader-buffer-reused")
		default:
			st.Fault("parser-internal-buffer-reused")
		}
	}
	if gcCount > 0 {
		st.Fault("gc-injected")
	}
	if len(docs) > 1 {
		st.Fault("same-parser-and-unfolder-reused")
	}
	if sc.SameTarget {
		st.Fault("target-not-cleared-between-documents")
	}
	for i, k := range keep {
		if sc.SameTarget && i < len(keep)-1 {
			continue // superseded states of the one target
		}
		now := k.get()
		x.ObserveStr(model.Render(now))
		if !model.DeepEq(k.snap, now) {
			return &simkit.Violation{Kind: "alias", Site: site + "/" + te.Name,
				Detail: fmt.Sprintf("target %d changed after it was unfolded (buffers scribbled / further documents / GC): right after unfolding %s | now %s", i, model.Render(k.snap), model.Render(now)), Scenario: sc}
		}
		if !model.DeepEq(ref[i], now) {
			return &simkit.Violation{Kind: "hostile-differs", Site: site + "/" + te.Name,
				Detail: fmt.Sprintf("target %d: benign environment %s | hostile environment %s", i, model.Render(ref[i]), model.Render(now)), Scenario: sc}
		}
	}
	st.Sample(map[string]interface{}{"mode": "unfold", "format": f, "entry": sc.Entry, "target": te.Name, "docs": nd, "gc_points": sc.GCAt, "first_doc_hex": trunc(sc.Docs[0], 80)})
	return nil
}

// encodeGC: fold -> encode with GC cycles between events equals the output
// without.
func encodeGC(c *simkit.Choices, x *simkit.Ctx) *simkit.Violation {
	st := x.Stats
	f := model.Formats[c.N(3)]
	cd := common.ByName(f)
	te := model.PickType(c, false, false, false)
	val := te.Gen(c)
	sc := &Scenario{Mode: "encode", Format: string(f), Target: te.Name, Value: model.Render(val)}
	if c.N(3) == 0 {
		sc.UserFolders = 1 + c.N(model.NumFolderVariants-1)
		if c.Bool() {
			// a type the user folders apply to, in every position (value, pointer,
			// element, field, behind an interface)
			te = model.TypeByName([]string{"Inner", "Holder", "Nested", "Simple", "[]Simple", "Score", "[]Score", "Scored", "map[string]Score",
				"PtrShaped", "HasPtrShaped", "[]*Inner", "*Simple", "PtrArr", "HasPtrArr"}[c.N(15)])
			val = te.Gen(c)
			if c.N(3) == 0 {
				val = map[string]interface{}{"v": val} // held in an interface: not addressable
			}
			sc.Target, sc.Value = te.Name, model.Render(val)
		}
	}
	fopts := model.FolderOpts(sc.UserFolders)
	n := 0
	{
		cnt := simkit.NewTap(nil)
		cnt.NoRecord = true
		var cerr error
		if pi := simkit.Guard(func() { cerr = gotype.Fold(val, cnt, fopts...) }); pi != nil || cerr != nil {
			if pi != nil && sc.UserFolders != 0 {
				// a value that folds without user folders must not make the
				// library crash on the way INTO a user folder (the function
				// pointer / value pointer conversions of fold_user.go)
				plain := simkit.NewTap(nil)
				plain.NoRecord = true
				var perr error
				if ppi := simkit.Guard(func() { perr = gotype.Fold(val, plain) }); ppi == nil && perr == nil {
					simkit.SetCurrent(sc)
					return &simkit.Violation{Kind: "panic", Site: "encode/user-folder" + pi.Site,
						Detail: "folding panics with user-defined folders registered (it folds without them): " + pi.Value + "\n" + pi.Stack, Scenario: sc}
				}
			}
			return nil
		}
		n = cnt.Count
	}
	if n == 0 {
		return nil
	}
	var gcAt []int
	for j, k := 0, 1+c.N(3); j < k; j++ {
		gcAt = append(gcAt, c.N(n))
	}
	sc.GCAt = [][]int{gcAt}
	simkit.SetCurrent(sc)
	st.Eval(1)
	st.Distinct(simkit.NewDigest().Str("enc" + string(f) + te.Name).Str(sc.Value).Ints(gcAt).Int(sc.UserFolders).Sum())
	run := func(gc bool) ([]byte, error, *simkit.PanicInfo) {
		w := simkit.NewWriter()
		w.Clock = &x.Clock
		var err error
		pi := simkit.Guard(func() {
			enc := cd.NewVisitor(w)
			var vs structform.Visitor = enc
			if gc {
				tap := simkit.NewTap(enc)
				tap.NoRecord = true
				tap.Hook = func(idx int, ev *simkit.Ev) error {
					for _, g := range gcAt {
						if g == idx {
							runtime.GC()
							st.Probe("gc-at-event-boundary")
						}
					}
					return nil
				}
				vs = tap
			} else {
				tap := simkit.NewTap(enc) // same wrapper, so both runs take the same adapter paths
				tap.NoRecord = true
				vs = tap
			}
			err = gotype.Fold(val, vs, fopts...)
		})
		return w.Buf, err, pi
	}
	plain, perr, ppi := run(false)
	if ppi != nil || perr != nil {
		st.Probe("encode-refused")
		return nil
	}
	withGC, gerr, gpi := run(true)
	site := "encode/" + string(f)
	if gpi != nil {
		return &simkit.Violation{Kind: "panic", Site: site + gpi.Site, Detail: gpi.Value + "\n" + gpi.Stack, Scenario: sc}
	}
	if gerr != nil || string(plain) != string(withGC) {
		return &simkit.Violation{Kind: "gc-differs", Site: site + "/" + te.Name,
			Detail: fmt.Sprintf("without GC: %x | with GC at events %v: %x (err %v)", plain, gcAt, withGC, gerr), Scenario: sc}
	}
	return nil
}

func sortInts(a []int) {
	for i := 1; i < len(a); i++ {
		for j := i; j > 0 && a[j-1] > a[j]; j-- {
			a[j-1], a[j] = a[j], a[j-1]
		}
	}
}

func trunc(s string, n int) string {
	if len(s) > n {
		return s[:n] + "…"
	}
	return s
}

// untype turns []string and map[string]string (at any depth) into the
// interface containers holding the same strings.
func untype(v interface{}) interface{} {
	switch t := v.(type) {
	case []string:
		out := make([]interface{}, len(t))
		for i, s := range t {
			out[i] = s
		}
		return out
	case map[string]string:
		out := make(map[string]interface{}, len(t))
		for k, s := range t {
			out[k] = s
		}
		return out
	case []interface{}:
		out := make([]interface{}, len(t))
		for i, e := range t {
			out[i] = untype(e)
		}
		return out
	case map[string]interface{}:
		out := make(map[string]interface{}, len(t))
		for k, e := range t {
			out[k] = untype(e)
		}
		return out
	}
	return v
}
