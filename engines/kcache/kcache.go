// Package kcache decides C20: the unfolder's key cache never changes results,
// whatever its capacity and whatever the history of keys, and cached keys
// survive the overwriting of the buffers they were first seen in.
package kcache

import (
	"encoding/hex"
	"fmt"
	"math"
	"strconv"
	"strings"

	"github.com/elastic/go-structform/gotype"

	"verif/engines/common"
	"verif/model"
	"verif/simkit"
)

type Scenario struct {
	Capacity int      `json:"capacity"`
	Format   string   `json:"format"`
	Target   string   `json:"target_type"`
	Docs     []string `json:"docs_hex"`
	Cuts     [][]int  `json:"per_doc_cuts,omitempty"`
	Scribble bool     `json:"scribble"`
	Reset    bool     `json:"reset_between_docs,omitempty"`
	ReEnable []int    `json:"enable_key_cache_again_before_doc,omitempty"` // capacity per document index, -1 = no call
	Note     string   `json:"note,omitempty"`
}

type Engine struct{}

var capacities = []int{0, 1, 2, 3, 5, 64, 1000}

var targets = []string{"TwoMaps", "map[MyStr]Simple", "map[string]interface{}", "map[string]string", "map[string]int", "map[string]map[string]string",
	"map[string]Simple", "[]map[string]interface{}", "interface{}", "map[string][]int", "Strs", "NamedMap"}

type keyGen struct {
	c     *simkit.Choices
	alpha []string
}

func newKeyGen(c *simkit.Choices) *keyGen {
	n := 1 + c.N(8)
	g := &keyGen{c: c}
	// key alphabets are structured so that any shortcut in the cache lookup
	// (prefix, suffix, length, hash of a part) makes two keys collide
	mode := c.N(12)
	if mode == 10 && c.N(3) != 0 {
		mode = c.N(10) // very long keys are expensive: a third of their share
	}
	var colliding [][2]string
	if mode == 11 {
		colliding = collidingKeys[collidingHashes[c.N(len(collidingHashes))]]
		n = 2 + c.N(7)
	}
	if mode == 10 && n > 3 {
		n = 3
	}
	base := []string{"", "id", "abcdefg", "k", "abc"}[c.N(5)]
	long := 4000 + c.N(300)
	if c.N(3) == 0 {
		long = []int{4095, 4096, 4097, 8191, 8192, 8193, 65535, 65536}[c.N(8)]
	}
	filler := "system.process.cpu.load.average.per.core.normalized.value.of.the.last.minute"
	pre := filler[:c.N(len(filler))]
	for i := 0; i < n; i++ {
		var k string
		switch mode {
		case 0:
			k = fmt.Sprintf("k%d", i)
		case 1: // long common prefix, same length, differing tail
			k = pre + string(rune('a'+i))
		case 2: // differing head, long common suffix, same length
			k = string(rune('a'+i)) + pre
		case 3: // each key a prefix of the next
			k = filler[:1+i*(1+c.N(6))%len(filler)]
		case 4: // differ in one middle byte only
			b := []byte(pre + "____")
			b[len(b)/2] = byte('A' + i)
			k = string(b)
		case 5: // multi-byte runes, common prefix
			k = pre[:len(pre)/2] + string([]rune{rune(0x4e2d + i), 0xe9})
		case 9: // keys that differ only by NUL padding and length-like trailing bytes (packed representations collide)
			switch i % 4 {
			case 0:
				k = base
			case 1:
				pad := 8 - len(base) - 1
				if pad < 0 {
					pad = 0
				}
				k = base + strings.Repeat("\x00", pad) + string([]byte{byte(len(base))})
			case 2:
				k = base + strings.Repeat("\x00", 1+i/4)
			default:
				k = strings.Repeat("\x00", 8-i/4%8)
			}
		case 11: // pairs of equal-length keys with equal values of a common 32-bit hash
			k = colliding[i/2%len(colliding)][i%2]
		case 10: // very long keys sharing everything but the tail (block / length limits)
			k = strings.Repeat("k", long) + string(rune('a'+i))
		case 6: // single bytes, incl. 0x80-0xff (not valid UTF-8: Latin-1 / binary keys)
			k = string([]byte{byte(0x61 + 37*i + 128*c.N(2))})
		case 7: // arbitrary short byte strings
			b := make([]byte, 1+c.N(3))
			for j := range b {
				b[j] = byte(c.N(256))
			}
			k = string(b)
		default:
			k = model.GenKey(c, 20)
		}
		g.alpha = append(g.alpha, k)
	}
	return g
}

func (g *keyGen) key() string { return g.alpha[g.c.N(len(g.alpha))] }

func (g *keyGen) obj(n int, val func() model.Val) model.Val {
	v := model.Val{K: model.VObj}
	for i := 0; i < n; i++ {
		v.Keys = append(v.Keys, g.key())
		v.A = append(v.A, val())
	}
	return v
}

func (g *keyGen) any(depth int) model.Val {
	c := g.c
	switch c.N(7) {
	case 0:
		return model.Val{K: model.VNull}
	case 1:
		return model.Bool(c.Bool())
	case 2:
		return model.Text(model.GenText(c, 20))
	case 3:
		return model.Int(int64(c.N(1000)) - 500)
	case 4:
		if depth < 3 {
			return g.obj(c.Small(6), func() model.Val { return g.any(depth + 1) })
		}
		return model.Int(7)
	case 5:
		if depth < 3 {
			a := model.Val{K: model.VArr}
			for i, n := 0, c.Small(4); i < n; i++ {
				a.A = append(a.A, g.any(depth+1))
			}
			return a
		}
		return model.Text("x")
	default:
		return model.Text(g.key()) // values that look like keys
	}
}

func (g *keyGen) forTarget(target string) model.Val {
	c := g.c
	n := c.Small(10)
	text := func() model.Val { return model.Text(model.GenText(c, 16)) }
	switch target {
	case "map[string]string", "NamedMap":
		return g.obj(n, text)
	case "map[string]int":
		return g.obj(n, func() model.Val { return model.Int(int64(c.N(2000)) - 1000) })
	case "map[string]map[string]string":
		return g.obj(n, func() model.Val { return g.obj(c.Small(5), text) })
	case "map[string][]int":
		return g.obj(n, func() model.Val {
			a := model.Val{K: model.VArr}
			for i, k := 0, c.Small(4); i < k; i++ {
				a.A = append(a.A, model.Int(int64(c.N(100))))
			}
			return a
		})
	case "TwoMaps":
		simple := func() model.Val {
			return model.Val{K: model.VObj, Keys: []string{"a", "b"}, A: []model.Val{model.Int(int64(c.N(100))), text()}}
		}
		ints := func() model.Val {
			a := model.Val{K: model.VArr}
			for i, k := 0, c.Small(3); i < k; i++ {
				a.A = append(a.A, model.Int(int64(c.N(100))))
			}
			return a
		}
		inner := func() model.Val {
			return model.Val{K: model.VObj, Keys: []string{"x", "z"}, A: []model.Val{model.Int(int64(c.N(100))), text()}}
		}
		// the same key texts in maps with different (named) key types
		return model.Val{K: model.VObj, Keys: []string{"a", "b", "c"},
			A: []model.Val{g.obj(c.Small(6), simple), g.obj(c.Small(6), ints), g.obj(c.Small(6), inner)}}
	case "map[string]Simple", "map[MyStr]Simple":
		return g.obj(n, func() model.Val {
			return model.Val{K: model.VObj, Keys: []string{"a", "b", "c"}, A: []model.Val{model.Int(int64(c.N(100))), text(), model.Bool(c.Bool())}}
		})
	case "[]map[string]interface{}":
		a := model.Val{K: model.VArr}
		for i, k := 0, 1+c.Small(4); i < k; i++ {
			a.A = append(a.A, g.obj(c.Small(6), func() model.Val { return g.any(1) }))
		}
		return a
	case "Strs":
		return model.Val{K: model.VObj, Keys: []string{"first", "attrs", "any"},
			A: []model.Val{text(), g.obj(c.Small(6), text), g.obj(c.Small(6), func() model.Val { return g.any(1) })}}
	default: // map[string]interface{}, interface{}
		return g.obj(n, func() model.Val { return g.any(1) })
	}
}

func write(c *simkit.Choices, f model.Format, v model.Val) *model.Doc {
	switch f {
	case model.JSON:
		return model.WriteJSONStream(c, []model.Val{v}, false)
	case model.CBOR:
		return model.WriteCBORStream(c, []model.Val{v})
	}
	st := model.DrawUBStyle(c)
	st.NoPayload = false
	return model.WriteUBJSONStream(c, []model.Val{v}, st)
}

// run unfolds the documents one after the other with one unfolder; capacity<0
// disables the cache. It returns a deep copy of every target.
func run(sc *Scenario, docs [][]byte, te *model.TypeEntry, cd *common.Codec, capacity int, x *simkit.Ctx) (out []interface{}, errs []error, pi *simkit.PanicInfo) {
	pi = simkit.Guard(func() {
		u, err := gotype.NewUnfolder(nil)
		if err != nil {
			errs = append(errs, err)
			return
		}
		if capacity >= 0 {
			u.EnableKeyCache(capacity)
		}
		var keep []func() interface{}
		for i, d := range docs {
			if capacity >= 0 && i < len(sc.ReEnable) && sc.ReEnable[i] >= 0 {
				u.EnableKeyCache(sc.ReEnable[i]) // configured again while in use
			}
			ptr, _, val := te.NewTarget()
			if err := u.SetTarget(ptr); err != nil {
				errs = append(errs, err)
				return
			}
			var cuts []int
			if i < len(sc.Cuts) {
				cuts = sc.Cuts[i]
			}
			x.Alive()
			_, err := simkit.Feed(cd.NewParser(u), d, cuts, sc.Scribble, &x.Clock)
			x.Alive()
			errs = append(errs, err)
			keep = append(keep, val)
			if sc.Reset {
				u.Reset()
			}
		}
		// targets are read only after ALL documents went through (and all
		// buffers were scribbled): a key interned by reference would show
		for _, val := range keep {
			x.Alive()
			out = append(out, model.DeepCopy(val()))
		}
	})
	return
}

// wide: more distinct keys than an 8- or 16-bit index can number, on a cache
// large enough to hold them all (or just not), then early keys again.
func wide(c *simkit.Choices, x *simkit.Ctx) *simkit.Violation {
	st := x.Stats
	n := []int{255, 256, 257, 300}[c.N(4)]
	if c.N(24) == 0 {
		n = []int{65535, 65536, 65537, 66000}[c.N(4)]
		st.Probe("more-than-65535-distinct-keys")
	}
	capacity := []int{n - 1, n, n + 1, 2 * n, 1 << 17}[c.N(5)]
	if c.N(150) == 0 {
		// more than 2^20 keys that hardly ever repeat, on a small cache:
		// whatever the cache measures about itself over a long window
		n = 1<<20 + 5000 + c.N(1000)
		capacity = []int{1, 64, 1000, 100000}[c.N(4)]
		st.Probe("more-than-a-million-distinct-keys")
	}
	hugeKey := 0
	if c.N(40) == 0 {
		// one key longer than any byte budget a cache may have (17-33 MiB)
		hugeKey = []int{17 << 20, 33 << 20}[c.N(2)]
		n = 255
		st.Probe("one-key-of-tens-of-mib")
	}
	f := model.Formats[c.N(3)]
	cd := common.ByName(f)
	te := model.TypeByName("map[string]int")
	prefix := []string{"", "k", "field."}[c.N(3)]
	key := func(i int) string {
		d := strconv.Itoa(i)
		return prefix + "0000000"[:7-len(d)] + d
	}
	first := model.Val{K: model.VObj, Keys: make([]string, 0, n), A: make([]model.Val, 0, n)}
	for i := 0; i < n; i++ {
		if i&0xffff == 0 {
			x.Alive()
		}
		first.Keys = append(first.Keys, key(i))
		first.A = append(first.A, model.Int(int64(i)))
	}
	if hugeKey > 0 {
		first.Keys = append(first.Keys, strings.Repeat("K", hugeKey))
		first.A = append(first.A, model.Int(-1))
	}
	again := model.Val{K: model.VObj}
	for i, k := 0, 4+c.N(12); i < k; i++ {
		j := c.N(n)
		switch c.N(3) {
		case 0:
			j = c.N(8) // the oldest entries
		case 1:
			j = n - 1 - c.N(8)
		}
		again.Keys = append(again.Keys, key(j))
		again.A = append(again.A, model.Int(int64(1000000+j)))
	}
	sc := &Scenario{Capacity: capacity, Format: string(f), Target: te.Name, Scribble: true, Reset: c.Bool(),
		Note: fmt.Sprintf("document 0 holds the %d distinct keys %q..%q (hex omitted)", n, key(0), key(n-1))}
	var docs [][]byte
	for i, v := range []model.Val{first, again, again} {
		var b []byte
		if i == 0 && len(v.Keys) > 100000 {
			// (10^6 members: encoded by hand, with heartbeats - the general
			// writers draw several choices per token)
			b = plainObject(f, v, x)
		} else {
			b = write(c, f, v).Bytes
		}
		if f == model.JSON {
			b = append(b, '\n')
		}
		docs = append(docs, b)
		if i == 0 {
			sc.Docs = append(sc.Docs, "")
		} else {
			sc.Docs = append(sc.Docs, hex.EncodeToString(b))
		}
		sc.Cuts = append(sc.Cuts, nil)
		x.Alive()
	}
	simkit.SetCurrent(sc)
	st.Eval(1)
	st.Distinct(simkit.NewDigest().Int(capacity).Int(n).Str(string(f) + prefix).Str(sc.Docs[1]).Sum())
	st.Fault("chunk-buffer-scribbled-after-write")
	st.Probe("wide-key-population")
	ref, refErrs, refPanic := run(sc, docs, te, cd, -1, x)
	x.Alive()
	if refPanic != nil {
		return nil
	}
	got, gotErrs, gotPanic := run(sc, docs, te, cd, capacity, x)
	x.Alive()
	site := "capacity=wide"
	if gotPanic != nil {
		return &simkit.Violation{Kind: "panic", Site: site + gotPanic.Site,
			Detail: fmt.Sprintf("with EnableKeyCache(%d) and %d distinct keys: %s\n%s", capacity, n, gotPanic.Value, gotPanic.Stack), Scenario: sc}
	}
	if len(ref) != len(got) || fmt.Sprint(refErrs) != fmt.Sprint(gotErrs) {
		return &simkit.Violation{Kind: "value-differs", Site: site,
			Detail: fmt.Sprintf("%d distinct keys: errors without cache %v, with EnableKeyCache(%d) %v", n, refErrs, capacity, gotErrs), Scenario: sc}
	}
	for i := range ref {
		if !model.DeepEq(ref[i], got[i]) {
			return &simkit.Violation{Kind: "value-differs", Site: site,
				Detail: fmt.Sprintf("document %d after %d distinct keys: without cache %s | with EnableKeyCache(%d) %s", i, n, trunc(model.Render(ref[i]), 400), capacity, trunc(model.Render(got[i]), 400)), Scenario: sc}
		}
	}
	return nil
}

// hot: a long stream of similar records - exactly n distinct keys on a cache
// of about n entries, each key hit hundreds or thousands of times - and then
// keys the cache has never seen. Whatever is counted per entry (hits, age,
// generations) crosses its thresholds here.
func hot(c *simkit.Choices, x *simkit.Ctx) *simkit.Violation {
	st := x.Stats
	n := 1 + c.N(6)
	capacity := []int{n, n, n + 1, n - 1, 2 * n}[c.N(5)]
	if capacity < 0 {
		capacity = 0
	}
	records := []int{130, 300, 1100, 4200}[c.N(4)]
	if c.N(40) == 0 {
		records = 30000
	}
	f := model.Formats[c.N(3)]
	cd := common.ByName(f)
	te := model.TypeByName("[]map[string]interface{}")
	g := newKeyGen(c)
	for len(g.alpha) < n {
		g.alpha = append(g.alpha, fmt.Sprintf("field%d", len(g.alpha)))
	}
	keys := g.alpha[:n]
	rec := func(extra ...string) model.Val {
		o := model.Val{K: model.VObj}
		for i, k := range append(append([]string{}, keys...), extra...) {
			o.Keys = append(o.Keys, k)
			o.A = append(o.A, model.Int(int64(i)))
		}
		return o
	}
	stream := model.Val{K: model.VArr}
	for i := 0; i < records; i++ {
		stream.A = append(stream.A, rec())
	}
	stream.A = append(stream.A, rec("never-seen-before"), rec("another-new-key", "never-seen-before"), rec())
	sc := &Scenario{Capacity: capacity, Format: string(f), Target: te.Name, Scribble: true,
		Note: fmt.Sprintf("one document: %d records with the same %d keys %q, then records with new keys (hex omitted)", records, n, keys)}
	b := write(c, f, stream).Bytes
	if f == model.JSON {
		b = append(b, '\n')
	}
	docs := [][]byte{b, b}
	sc.Docs = []string{"", ""}
	sc.Cuts = [][]int{nil, nil}
	for i, k := 0, c.N(4); i < k; i++ {
		sc.Cuts[0] = append(sc.Cuts[0], c.N(len(b)+1))
	}
	sortInts(sc.Cuts[0])
	simkit.SetCurrent(sc)
	x.Alive()
	st.Eval(1)
	st.Distinct(simkit.NewDigest().Int(capacity).Int(n).Int(records).Str(string(f) + fmt.Sprint(keys)).Sum())
	st.Probe("hot-keys-long-record-stream")
	ref, refErrs, refPanic := run(sc, docs, te, cd, -1, x)
	x.Alive()
	if refPanic != nil {
		return nil
	}
	got, gotErrs, gotPanic := run(sc, docs, te, cd, capacity, x)
	x.Alive()
	site := "capacity=hot"
	if gotPanic != nil {
		return &simkit.Violation{Kind: "panic", Site: site + gotPanic.Site,
			Detail: fmt.Sprintf("with EnableKeyCache(%d), %d records of %d keys: %s\n%s", capacity, records, n, gotPanic.Value, gotPanic.Stack), Scenario: sc}
	}
	if len(ref) != len(got) || fmt.Sprint(refErrs) != fmt.Sprint(gotErrs) {
		return &simkit.Violation{Kind: "value-differs", Site: site,
			Detail: fmt.Sprintf("errors without cache %v, with EnableKeyCache(%d) %v", refErrs, capacity, gotErrs), Scenario: sc}
	}
	for i := range ref {
		if !model.DeepEq(ref[i], got[i]) {
			return &simkit.Violation{Kind: "value-differs", Site: site,
				Detail: fmt.Sprintf("document %d (%d records of %d keys): the result with EnableKeyCache(%d) differs from the result without cache", i, records, n, capacity), Scenario: sc}
		}
	}
	return nil
}

func (Engine) Run(c *simkit.Choices, x *simkit.Ctx) *simkit.Violation {
	if c.N(150) == 0 {
		return wide(c, x)
	}
	if c.N(600) == 0 {
		return hot(c, x)
	}
	st := x.Stats
	f := model.Formats[c.N(3)]
	cd := common.ByName(f)
	capacity := capacities[c.N(len(capacities))]
	if c.N(40) == 0 {
		// "unlimited": capacities far beyond anything that will ever be cached,
		// with and without bits set where a narrower counter would look
		capacity = []int{math.MaxInt64, 1 << 62, 1<<50 | 1<<31, 1<<41 + 5, math.MaxInt64 - 1, 1<<63 - 1<<31}[c.N(6)]
	}
	exactCap := c.N(4) == 0 && capacity < 1<<30 // capacity = number of distinct keys (+-1), decided once the alphabet is known
	target := targets[c.N(len(targets))]
	te := model.TypeByName(target)
	g := newKeyGen(c)
	if exactCap {
		if capacity = len(g.alpha) + c.N(3) - 1; capacity < 0 {
			capacity = 0
		}
	}
	nd := 1 + c.N(8)
	if x.Thorough {
		nd = 1 + c.N(16)
	}
	sc := &Scenario{Capacity: capacity, Format: string(f), Target: target, Scribble: c.N(4) != 0, Reset: c.N(3) == 0}
	var docs [][]byte
	distinctKeys := map[string]bool{}
	for i := 0; i < nd; i++ {
		v := g.forTarget(target)
		d := write(c, f, v)
		b := d.Bytes
		if f == model.JSON {
			b = append(b, '\n')
		}
		docs = append(docs, b)
		sc.Docs = append(sc.Docs, hex.EncodeToString(b))
		var cuts []int
		if c.N(3) > 0 && len(b) > 1 {
			for j, k := 0, 1+c.Small(8); j < k; j++ {
				cuts = append(cuts, c.N(len(b)+1))
			}
			sortInts(cuts)
		}
		sc.Cuts = append(sc.Cuts, cuts)
		re := -1
		if i > 0 && c.N(6) == 0 {
			re = capacity
			if c.N(3) == 0 {
				re = capacities[c.N(len(capacities))]
			}
			st.Fault("key-cache-enabled-again")
		}
		sc.ReEnable = append(sc.ReEnable, re)
	}
	for _, k := range g.alpha {
		distinctKeys[k] = true
	}
	simkit.SetCurrent(sc)
	st.Eval(1)
	st.Distinct(simkit.NewDigest().Int(capacity).Str(string(f) + target).Str(fmt.Sprint(sc.Docs, sc.Cuts)).Sum())
	if capacity < len(distinctKeys) {
		st.Probe("capacity-below-distinct-keys")
	} else {
		st.Probe("capacity-holds-all-keys")
	}
	if capacity == 0 {
		st.Probe("capacity-zero")
	}
	if sc.Scribble {
		st.Fault("chunk-buffer-scribbled-after-write")
	}
	if sc.Reset {
		st.Fault("reset-between-documents")
	}

	ref, refErrs, refPanic := run(sc, docs, te, cd, -1, x)
	if refPanic != nil {
		st.Probe("reference-run-panics")
		return nil // the cache-less run itself panics: not this property's business
	}
	got, gotErrs, gotPanic := run(sc, docs, te, cd, capacity, x)
	site := "capacity=" + capClass(capacity)
	if gotPanic != nil {
		return &simkit.Violation{Kind: "panic", Site: site + gotPanic.Site,
			Detail: fmt.Sprintf("with EnableKeyCache(%d): %s\n%s", capacity, gotPanic.Value, gotPanic.Stack), Scenario: sc}
	}
	if len(ref) != len(got) || len(refErrs) != len(gotErrs) {
		return &simkit.Violation{Kind: "value-differs", Site: site,
			Detail: fmt.Sprintf("documents processed: %d without cache, %d with cache (errors %v vs %v)", len(ref), len(got), refErrs, gotErrs), Scenario: sc}
	}
	for i := range refErrs {
		if (refErrs[i] == nil) != (gotErrs[i] == nil) {
			return &simkit.Violation{Kind: "value-differs", Site: site,
				Detail: fmt.Sprintf("document %d: error without cache %v, with cache %v", i, refErrs[i], gotErrs[i]), Scenario: sc}
		}
	}
	for i := range ref {
		x.ObserveStr(model.Render(got[i]))
		if !model.DeepEq(ref[i], got[i]) {
			return &simkit.Violation{Kind: "value-differs", Site: site,
				Detail: fmt.Sprintf("document %d: without cache %s | with EnableKeyCache(%d) %s", i, model.Render(ref[i]), capacity, model.Render(got[i])), Scenario: sc}
		}
	}
	st.Sample(map[string]interface{}{"capacity": capacity, "format": f, "target": target, "docs": nd, "key_alphabet": len(g.alpha), "first_doc_hex": trunc(sc.Docs[0], 80)})
	return nil
}

func capClass(n int) string {
	switch {
	case n == 0:
		return "0"
	case n < 8:
		return "small"
	}
	return "large"
}

func sortInts(a []int) {
	for i := 1; i < len(a); i++ {
		for j := i; j > 0 && a[j-1] > a[j]; j-- {
			a[j-1], a[j] = a[j], a[j-1]
		}
	}
}

func trunc(s string, n int) string {
	if len(s) > n {
		return s[:n] + "…"
	}
	return s
}

// plainObject encodes an object of string keys and small non-negative integer
// values in the plainest form of the format.
func plainObject(f model.Format, v model.Val, x *simkit.Ctx) []byte {
	var b []byte
	head := func(major byte, n int) {
		switch {
		case n < 24:
			b = append(b, major<<5|byte(n))
		case n < 1<<8:
			b = append(b, major<<5|24, byte(n))
		case n < 1<<16:
			b = append(b, major<<5|25, byte(n>>8), byte(n))
		default:
			b = append(b, major<<5|26, byte(n>>24), byte(n>>16), byte(n>>8), byte(n))
		}
	}
	ulen := func(n int) {
		switch {
		case n < 1<<7:
			b = append(b, 'i', byte(n))
		case n < 1<<15:
			b = append(b, 'I', byte(n>>8), byte(n))
		default:
			b = append(b, 'l', byte(n>>24), byte(n>>16), byte(n>>8), byte(n))
		}
	}
	switch f {
	case model.JSON:
		b = append(b, '{')
	case model.CBOR:
		b = append(b, 0xbf)
	default:
		b = append(b, '{')
	}
	for i, k := range v.Keys {
		if i&0xffff == 0 {
			x.Alive()
		}
		val := int(v.A[i].U)
		switch f {
		case model.JSON:
			if i > 0 {
				b = append(b, ',')
			}
			b = append(b, '"')
			b = append(b, k...)
			b = append(b, '"', ':')
			b = strconv.AppendInt(b, int64(val), 10)
		case model.CBOR:
			head(3, len(k))
			b = append(b, k...)
			head(0, val)
		default:
			ulen(len(k))
			b = append(b, k...)
			b = append(b, 'l', byte(val>>24), byte(val>>16), byte(val>>8), byte(val))
		}
	}
	switch f {
	case model.JSON:
		b = append(b, '}')
	case model.CBOR:
		b = append(b, 0xff)
	default:
		b = append(b, '}')
	}
	return b
}
