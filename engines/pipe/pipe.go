// Package pipe decides C08: a parser connected directly to an encoder (all
// nine pairs) turns every valid source stream into a valid target stream with
// the same value, irrespective of the read schedule of the simulated
// transport. The oracle decodes the target with an independent reference
// reader and compares it with the generated source value under the relation
// of DESIGN App. C.
package pipe

import (
	"encoding/hex"
	"fmt"
	"io"

	structform "github.com/elastic/go-structform"
	"github.com/elastic/go-structform/json"

	"verif/engines/common"
	"verif/model"
	"verif/simkit"
)

type Scenario struct {
	Src         string `json:"src"`
	Dst         string `json:"dst"`
	Source      string `json:"source_hex"`
	SourceText  string `json:"source_text,omitempty"`
	Values      int    `json:"values"`
	Entry       string `json:"entry"` // reader | parse | parsestring | write | decoder | bytes-decoder
	Reads       []int  `json:"read_sizes,omitempty"`
	Cuts        []int  `json:"cuts,omitempty"`
	BufSize     int    `json:"buf_size,omitempty"`
	ReaderKind  int    `json:"reader_kind,omitempty"`
	WriterKind  int    `json:"writer_kind,omitempty"`
	JSONOpts    int    `json:"json_opts,omitempty"` // 1 no HTML escaping, 2 explicit radix point, 4 invalid floats ignored
	EOFWithData bool   `json:"eof_with_data,omitempty"`
	Target      string `json:"target_hex,omitempty"`
}

type Engine struct{}

func refRead(f model.Format, b []byte) ([]model.Val, error) {
	switch f {
	case model.JSON:
		return model.ReadJSON(b)
	case model.CBOR:
		return model.ReadCBOR(b)
	}
	return model.ReadUBJSON(b)
}

func (Engine) Run(c *simkit.Choices, x *simkit.Ctx) *simkit.Violation {
	st := x.Stats
	sf := model.Formats[c.N(3)]
	df := model.Formats[c.N(3)]
	src, dst := common.ByName(sf), common.ByName(df)
	o := model.QuickOpts()
	if x.Thorough && c.N(3) == 0 {
		o = model.ThoroughOpts()
		o.Budget = 30
	}
	n := 1
	if c.N(3) == 0 {
		// a concatenated stream of container documents
		n = 2 + c.N(3)
		o.TopContainer = true
	}
	var doc *model.Doc
	if c.N(2500) == 0 {
		var kind string
		doc, kind = common.ExtremeDoc(c, sf)
		n = len(doc.Vals)
		x.Stats.Probe("extreme-shape-" + kind)
	} else {
		doc = common.GenDoc(c, sf, o, n)
	}

	// sanity of the trusted base: the reference reader of the source format
	// must read the independent writer's output back as the generated values
	if back, err := refRead(sf, doc.Bytes); err != nil || len(back) != len(doc.Vals) {
		return &simkit.Violation{Kind: "harness", Site: "reference-reader/" + string(sf),
			Detail: fmt.Sprintf("reference reader cannot read the independent writer's output: %v (%d of %d values) doc=%x", err, len(back), len(doc.Vals), truncB(doc.Bytes))}
	}

	nonFinite := false
	for _, v := range doc.Vals {
		if model.HasNonFinite(v) {
			nonFinite = true
		}
	}

	plans := 3 + c.N(4)
	for p := 0; p < plans; p++ {
		sc := &Scenario{Src: string(sf), Dst: string(df), Source: hex.EncodeToString(doc.Bytes), Values: n}
		if sf == model.JSON {
			sc.SourceText = string(doc.Bytes)
		}
		if p > 0 { // plan 0: as much as fits per read
			for i, k := 0, 1+c.N(4); i < k; i++ {
				switch c.N(3) {
				case 0:
					sc.Reads = append(sc.Reads, 1)
				case 1:
					sc.Reads = append(sc.Reads, 1+c.N(8))
				default:
					sc.Reads = append(sc.Reads, 1+c.N(len(doc.Bytes)+1))
				}
			}
			st.Fault("short-read")
		}
		sc.EOFWithData = c.Bool()
		sc.Entry = "reader"
		if c.N(3) == 0 {
			// the other entry points of the same parser, and other concrete
			// reader / writer types on the two seams
			switch c.N(6) {
			case 0:
				sc.Entry = "parse"
			case 1:
				sc.Entry = "parsestring"
			case 2:
				if last := len(doc.OpenEnd) - 1; last < 0 || !doc.OpenEnd[last] {
					// (a push parser fed through Write has no public end-of-input
					// call: only streams whose last value is self-delimiting)
					sc.Entry = "write"
					for i, k := 0, c.N(5); i < k; i++ {
						sc.Cuts = append(sc.Cuts, c.N(len(doc.Bytes)+1))
					}
					sortInts(sc.Cuts)
				}
			case 3:
				sc.Entry = "decoder"
				sc.BufSize = common.DrawBufSize(c, len(doc.Bytes))
				sc.ReaderKind = c.N(simkit.NumReaderKinds)
			case 4:
				sc.Entry = "bytes-decoder"
			default:
				sc.ReaderKind = 1 + c.N(simkit.NumReaderKinds-1)
			}
		}
		if c.N(4) == 0 {
			sc.WriterKind = 1 + c.N(3)
		}
		if df == model.JSON && c.N(4) == 0 {
			sc.JSONOpts = 1 + c.N(7)
		}
		simkit.SetCurrent(sc)
		x.Alive()
		st.Eval(1)
		st.Probe("entry-" + sc.Entry)
		if sc.JSONOpts != 0 {
			st.Probe("json-encoder-options")
		}
		if sc.WriterKind != 0 {
			st.Probe("writer-with-optional-interfaces")
		}
		st.Distinct(simkit.NewDigest().Str(sc.Src + ">" + sc.Dst + sc.Entry).Bytes(doc.Bytes).Ints(sc.Reads).Ints(sc.Cuts).
			Int(b2i(sc.EOFWithData)).Int(sc.BufSize).Int(sc.ReaderKind).Int(sc.WriterKind).Int(sc.JSONOpts).Sum())

		w := simkit.NewWriter()
		w.Clock = &x.Clock
		rd := &simkit.Reader{Data: simkit.Exact(doc.Bytes), Sizes: sc.Reads, EOFWithData: sc.EOFWithData, Clock: &x.Clock}
		var err error
		values := -1
		pi := simkit.Guard(func() {
			enc := dst.NewVisitor(w.AsWriter(sc.WriterKind))
			if jv, ok := enc.(*json.Visitor); ok && sc.JSONOpts != 0 {
				jv.SetEscapeHTML(sc.JSONOpts&1 == 0)
				jv.SetExplicitRadixPoint(sc.JSONOpts&2 != 0)
				jv.SetIgnoreInvalidFloat(sc.JSONOpts&4 != 0)
			}
			tap := simkit.NewTap(enc)
			tap.NoRecord = true
			tap.Clock = &x.Clock
			var sink structform.Visitor = tap
			switch sc.Entry {
			case "parse":
				err = src.Parse(simkit.Exact(doc.Bytes), sink)
			case "parsestring":
				err = src.ParseString(string(doc.Bytes), sink)
			case "write":
				_, err = simkit.Feed(src.NewParser(sink), doc.Bytes, sc.Cuts, true, &x.Clock)
			case "decoder", "bytes-decoder":
				var dec common.Decoder
				if sc.Entry == "decoder" {
					dec = src.NewDecoder(simkit.AsReader(sc.ReaderKind, rd), sc.BufSize, sink)
				} else {
					dec = src.NewBytesDecoder(simkit.Exact(doc.Bytes), sink)
				}
				values = 0
				for values <= n+1 {
					if err = dec.Next(); err != nil {
						break
					}
					values++
				}
				if err == io.EOF {
					err = nil
				}
			default:
				_, err = src.ParseReader(simkit.AsReader(sc.ReaderKind, rd), sink)
			}
		})
		site := string(sf) + ">" + string(df)
		sc.Target = hex.EncodeToString(w.Buf)
		x.Observe(w.Buf)
		if pi != nil {
			return &simkit.Violation{Kind: "panic", Site: site + pi.Site, Detail: pi.Value + "\n" + pi.Stack, Scenario: sc}
		}
		if err == nil && values >= 0 && values != n {
			return &simkit.Violation{Kind: "value-differs", Site: site + "/" + sc.Entry,
				Detail: fmt.Sprintf("the pull decoder completed %d values of a stream of %d", values, n), Scenario: sc}
		}
		if err != nil {
			if df == model.JSON && nonFinite && sc.JSONOpts&4 == 0 {
				st.Probe("non-finite-float-refused-by-json")
				continue
			}
			return &simkit.Violation{Kind: "pipeline-error", Site: site,
				Detail: fmt.Sprintf("valid source stream refused: %v", err), Scenario: sc}
		}
		got, rerr := refRead(df, w.Buf)
		if rerr != nil {
			return &simkit.Violation{Kind: "target-invalid", Site: site,
				Detail: fmt.Sprintf("the reference %s reader rejects the target document: %v (read %d values)", df, rerr, len(got)), Scenario: sc}
		}
		if len(got) != len(doc.Vals) {
			return &simkit.Violation{Kind: "value-differs", Site: site,
				Detail: fmt.Sprintf("%d source values became %d target values", len(doc.Vals), len(got)), Scenario: sc}
		}
		for i := range got {
			want := doc.Vals[i]
			if df == model.JSON && sc.JSONOpts&4 != 0 && nonFinite {
				want = model.NonFiniteToNull(want) // what SetIgnoreInvalidFloat documents
			}
			if ok, why := model.Equiv(want, got[i], sf, df); !ok {
				return &simkit.Violation{Kind: "value-differs", Site: site,
					Detail: fmt.Sprintf("value %d: %s", i, why), Scenario: sc}
			}
		}
	}
	st.Sample(map[string]interface{}{"pair": string(sf) + ">" + string(df), "values": n, "source_hex": trunc(hex.EncodeToString(doc.Bytes), 100), "read_plans": plans})
	return nil
}

func sortInts(a []int) {
	for i := 1; i < len(a); i++ {
		for j := i; j > 0 && a[j] < a[j-1]; j-- {
			a[j], a[j-1] = a[j-1], a[j]
		}
	}
}

func b2i(b bool) int {
	if b {
		return 1
	}
	return 0
}

func trunc(s string, n int) string {
	if len(s) > n {
		return s[:n] + "…"
	}
	return s
}

func truncB(b []byte) []byte {
	if len(b) > 200 {
		return b[:200]
	}
	return b
}
